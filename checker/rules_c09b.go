package main

// C09-R8: every spilling combiner that is created or taken is, on every path,
// read back (Reader / WriteTo remove the spill directory), discarded, or
// handed on (sent to a channel, stored, returned, passed to a function that
// does one of these).  A path that simply drops it leaves its temporary spill
// directory behind.

import (
	"fmt"
	"go/ast"
	"go/token"
	"go/types"
	"strings"
)

type combTrack struct {
	c    *RC
	pr   *Prog
	seen map[string]bool
	n    int
}

func c09r8(c *RC) {
	pr := c.P
	t := &combTrack{c: c, pr: pr, seen: map[string]bool{}}
	for _, fn := range pr.FuncsIn("exec") {
		if fn.Body == nil {
			continue
		}
		fl := pr.Flow(fn)
		for _, b := range fl.G.Blocks {
			if !b.Live {
				continue
			}
			for i, nd := range b.Nodes {
				a, ok := nd.(*ast.AssignStmt)
				if !ok || len(a.Rhs) != 1 || len(a.Lhs) == 0 {
					continue
				}
				id, ok := a.Lhs[0].(*ast.Ident)
				if !ok || id.Name == "_" {
					continue
				}
				rhs := ast.Unparen(a.Rhs[0])
				switch x := rhs.(type) {
				case *ast.CallExpr:
					if fn.Pkg.CalleeName(x) != "exec.newCombiner" {
						continue
					}
					var facts Facts
					if len(a.Lhs) == 2 {
						if k := fl.Key(a.Lhs[1]); k != "" {
							facts = Facts{{key: k, eq: true, val: "nil"}}
						}
					}
					t.track(fn, Loc{b, i + 1}, id.Name, facts, "created", 0)
				case *ast.UnaryExpr:
					if x.Op != token.ARROW {
						continue
					}
					if tv := fn.Pkg.Info.Types[x]; tv.Type == nil || typeString(tv.Type) != "*exec.combiner" {
						continue
					}
					t.track(fn, Loc{b, i + 1}, id.Name, nil, "taken", 0)
				}
			}
			// select { case X = <-ch: ... }: the comm clause's assignment is a node too
		}
	}
	c.Floor("combiners created or taken", t.n, 3)
}

// track walks fn from start and requires every exit to have disposed of the
// combiner held in variable name.
func (t *combTrack) track(fn *Func, start Loc, name string, facts Facts, how string, depth int) bool {
	c, pr := t.c, t.pr
	key := fmt.Sprintf("%s|combiner:%s:%s", fn.QName(), how, name)
	if depth == 0 {
		if t.seen[key] {
			return true
		}
		t.seen[key] = true
		t.n++
	}
	fl := pr.Flow(fn)
	obj := func(e ast.Expr) bool {
		id, ok := ast.Unparen(e).(*ast.Ident)
		return ok && id.Name == name
	}
	disposes := func(n ast.Node) bool {
		done := false
		ast.Inspect(n, func(m ast.Node) bool {
			if done {
				return false
			}
			switch x := m.(type) {
			case *ast.CallExpr:
				if sel, ok := x.Fun.(*ast.SelectorExpr); ok && obj(sel.X) {
					switch fn.Pkg.CalleeName(x) {
					case "exec.(*combiner).Reader", "exec.(*combiner).WriteTo", "exec.(*combiner).Discard":
						done = true
					}
				}
				for ai, a := range x.Args {
					if !obj(a) {
						continue
					}
					// handed to a function: follow it when its body is known
					if callee := t.calleeOf(fn, x); callee != nil && depth < 3 {
						if p := paramName(callee, ai); p != "" {
							cfl := pr.Flow(callee)
							if t.track(callee, cfl.Entry(), p, nil, "param", depth+1) {
								done = true
							}
							continue
						}
					}
					done = true // append, or a callee outside the module: it escapes
				}
			case *ast.SendStmt:
				if obj(x.Value) {
					done = true
				}
			case *ast.AssignStmt:
				for i, r := range x.Rhs {
					if obj(r) && i < len(x.Lhs) {
						if _, plain := x.Lhs[i].(*ast.Ident); !plain {
							done = true // stored in a field, map or slice
						}
					}
				}
			case *ast.ReturnStmt:
				for _, r := range x.Results {
					if obj(r) {
						done = true
					}
				}
			case *ast.FuncLit:
				// captured by a literal: the literal takes over
				uses := false
				ast.Inspect(x.Body, func(k ast.Node) bool {
					if id, ok := k.(*ast.Ident); ok && id.Name == name {
						uses = true
					}
					return true
				})
				if uses {
					if lf := pr.FuncOfLit(x); lf != nil && depth < 3 {
						lfl := pr.Flow(lf)
						if _, isDefer := n.(*ast.DeferStmt); isDefer {
							// a deferred literal runs on every exit: it disposes if it can
							if t.anyDisposal(lf, name) {
								done = true
							}
						} else if t.track(lf, lfl.Entry(), name, nil, "captured", depth+1) {
							done = true
						} else {
							done = true // reported inside the literal
						}
					}
				}
				return false
			}
			return true
		})
		return done
	}
	ok := true
	nex := 0
	fl.Walk(start, "", facts, Visitor{
		Node: func(n ast.Node, x string, s *Step) (string, bool) {
			if disposes(n) {
				return x, true
			}
			// reassigned: the old value is gone (only count plain overwrite by a new take)
			return x, false
		},
		Exit: func(kind ExitKind, ret *ast.ReturnStmt, x string, s *Step) {
			if kind == ExitPanic {
				return
			}
			nex++
			ok = false
			ek := key + "|exit:" + exitKey(fl, s, ret)
			if depth > 0 {
				ek = fn.QName() + "|combiner:" + name + "|exit:" + exitKey(fl, s, ret)
			}
			c.Check(false, ek, fl.exitPos(s, ret),
				"this exit is reached with the combiner "+name+" neither read back (Reader/WriteTo), discarded, nor handed on: its temporary spill directory is left behind", s.Trail()...)
		}})
	if ok && depth == 0 {
		c.Pass(key, pr.Pos(fl.G.Blocks[0].Nodes[0].Pos()), "disposed of on every path")
	}
	return ok
}

// anyDisposal: the literal's body contains a disposal of name (used for
// deferred literals, which run on every exit).
func (t *combTrack) anyDisposal(lf *Func, name string) bool {
	found := false
	ast.Inspect(lf.Body, func(m ast.Node) bool {
		switch x := m.(type) {
		case *ast.SendStmt:
			if id, ok := x.Value.(*ast.Ident); ok && id.Name == name {
				found = true
			}
		case *ast.CallExpr:
			if sel, ok := x.Fun.(*ast.SelectorExpr); ok {
				if id, ok := sel.X.(*ast.Ident); ok && id.Name == name {
					switch lf.Pkg.CalleeName(x) {
					case "exec.(*combiner).Reader", "exec.(*combiner).WriteTo", "exec.(*combiner).Discard":
						found = true
					}
				}
			}
		}
		return true
	})
	return found
}

// calleeOf resolves a call to a module function or to a local closure bound
// to a variable by a single assignment.
func (t *combTrack) calleeOf(fn *Func, call *ast.CallExpr) *Func {
	if o, ok := fn.Pkg.Callee(call).(*types.Func); ok {
		if f := t.pr.FuncOfObj(o); f != nil && f.Body != nil {
			return f
		}
		return nil
	}
	id, ok := call.Fun.(*ast.Ident)
	if !ok {
		return nil
	}
	for f := fn; f != nil && f.Body != nil; f = f.Parent {
		var lit *Func
		ast.Inspect(f.Body, func(n ast.Node) bool {
			if a, ok := n.(*ast.AssignStmt); ok && len(a.Lhs) == 1 && len(a.Rhs) == 1 && expr(a.Lhs[0]) == id.Name {
				if l, ok := a.Rhs[0].(*ast.FuncLit); ok {
					lit = t.pr.FuncOfLit(l)
				}
			}
			return true
		})
		if lit != nil {
			return lit
		}
	}
	return nil
}

func paramName(f *Func, idx int) string {
	if f.Type == nil || f.Type.Params == nil {
		return ""
	}
	i := 0
	for _, fld := range f.Type.Params.List {
		for _, nm := range fld.Names {
			if i == idx {
				return nm.Name
			}
			i++
		}
		if len(fld.Names) == 0 {
			i++
		}
	}
	return ""
}

var _ = strings.Contains

// C09-R9: rows taken out of a combining frame are never dropped.
//
// (*combiningFrame).Compact removes rows from the frame and returns them;
// from that moment the returned frame is the only holder of those rows.  On
// every path from the call, the result must be handed on (as a call argument —
// to a combine, a spill, a reader — or returned) before the variable is
// overwritten, the enclosing loop goes round again, or the function exits.
func c09r9(c *RC) {
	pr := c.P
	n := 0
	for _, fn := range pr.FuncsIn("exec") {
		if fn.Body == nil {
			continue
		}
		fl := pr.Flow(fn)
		ord := 0
		for _, b := range fl.G.Blocks {
			if !b.Live {
				continue
			}
			for i, nd := range b.Nodes {
				for _, k := range callsIn(nd) {
					if fn.Pkg.CalleeName(k) != "exec.(*combiningFrame).Compact" {
						continue
					}
					n++
					ord++
					key := fmt.Sprintf("%s|compacted-rows#%d-handed-on", fn.QName(), ord)
					// used directly as an argument or returned: nothing to track
					a, isAssign := nd.(*ast.AssignStmt)
					if !isAssign || len(a.Lhs) != 1 || len(a.Rhs) != 1 || ast.Unparen(a.Rhs[0]) != ast.Expr(k) {
						direct := false
						ast.Inspect(nd, func(m ast.Node) bool {
							switch x := m.(type) {
							case *ast.CallExpr:
								for _, arg := range x.Args {
									if ast.Unparen(arg) == ast.Expr(k) {
										direct = true
									}
								}
							case *ast.ReturnStmt:
								for _, r := range x.Results {
									if ast.Unparen(r) == ast.Expr(k) {
										direct = true
									}
								}
							}
							return true
						})
						c.Check(direct, key, pr.Pos(k.Pos()), "the rows returned by Compact are neither bound to a variable, passed on, nor returned: they are removed from the combining frame and lost")
						continue
					}
					name := expr(a.Lhs[0])
					dropped := ""
					var trail []string
					fl.Walk(Loc{b, i + 1}, "", nil, Visitor{NoFacts: true,
						Node: func(m ast.Node, x string, s *Step) (string, bool) {
							if m == nd {
								dropped = "the loop comes round to the next Compact"
								trail = s.Trail()
								return x, true
							}
							used := false
							ast.Inspect(m, func(q ast.Node) bool {
								switch y := q.(type) {
								case *ast.CallExpr:
									if fn.Pkg.CalleeName(y) == "sort.Sort" {
										return true
									}
									for _, arg := range y.Args {
										if expr(arg) == name {
											used = true
										}
									}
								case *ast.ReturnStmt:
									for _, r := range y.Results {
										if expr(r) == name {
											used = true
										}
									}
								}
								return true
							})
							if used {
								return x, true
							}
							if as, ok := m.(*ast.AssignStmt); ok {
								for _, l := range as.Lhs {
									if expr(l) == name {
										dropped = "the variable is overwritten"
										trail = s.Trail()
										return x, true
									}
								}
							}
							return x, false
						},
						Exit: func(kind ExitKind, ret *ast.ReturnStmt, x string, s *Step) {
							if kind == ExitPanic {
								return
							}
							dropped = "the function returns"
							trail = s.Trail()
						}})
					c.Check(dropped == "", key, pr.Pos(k.Pos()),
						"the rows that Compact removed from the combining frame (held only by "+name+") are not handed on before "+dropped+": those rows — keys and their partial values — vanish from the result", trail...)
				}
			}
		}
	}
	c.Floor("Compact call sites", n, 3)
}
