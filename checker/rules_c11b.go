package main

// C11-R6: a frame's capacity never exceeds the storage of any of its columns,
// and Ensure(n) yields exactly n rows.
//
// frame.Slices / frame.Values build a frame over caller-supplied columns: the
// frame's cap must be the *smallest* column capacity (first column's, lowered
// by every later column whose capacity is smaller).  Ensure(n) returns the
// frame itself when len == n, a re-slice when n fits the capacity, and
// otherwise grows by n - len (Grow adds to the length).  Conditions are
// evaluated, expressions compared as linear forms.

import (
	"go/ast"
	"go/token"
	"strings"
)

func c11r6(c *RC) {
	pr := c.P
	for _, q := range []string{"frame.Slices", "frame.Values"} {
		fn := c.MustFn(q)
		if fn == nil {
			continue
		}
		// the variable holding a later column's capacity, and the test that lowers f.cap
		lowered := false
		why := "no statement lowers the frame's capacity to a smaller column capacity"
		ast.Inspect(fn.Body, func(n ast.Node) bool {
			ifs, ok := n.(*ast.IfStmt)
			if !ok || len(ifs.Body.List) != 1 {
				return true
			}
			a, ok := ifs.Body.List[0].(*ast.AssignStmt)
			if !ok || len(a.Lhs) != 1 || len(a.Rhs) != 1 {
				return true
			}
			sel, ok := a.Lhs[0].(*ast.SelectorExpr)
			if !ok || pr.fieldQName(fn.Pkg.FieldOf(sel)) != "frame.Frame.cap" {
				return true
			}
			colCap := expr(a.Rhs[0])
			frameCap := expr(a.Lhs[0])
			// the column capacity comes from Cap() of the column
			fromCap := false
			if as, ok := ifs.Init.(*ast.AssignStmt); ok && len(as.Lhs) == 1 && expr(as.Lhs[0]) == colCap {
				if k, ok := as.Rhs[0].(*ast.CallExpr); ok && strings.HasSuffix(expr(k.Fun), ".Cap") {
					fromCap = true
				}
			}
			if !fromCap {
				return true
			}
			// cond must be true exactly when colCap < frameCap (sign of colCap - frameCap)
			good := true
			for _, sign := range []int{-1, 0, 1} {
				v, known := evalCond(ifs.Cond, func(e ast.Expr) (bool, bool) {
					be, ok := ast.Unparen(e).(*ast.BinaryExpr)
					if !ok {
						return false, false
					}
					s := sign
					switch {
					case expr(be.X) == colCap && expr(be.Y) == frameCap:
					case expr(be.Y) == colCap && expr(be.X) == frameCap:
						s = -sign
					default:
						return false, false
					}
					switch be.Op {
					case token.LSS:
						return s < 0, true
					case token.LEQ:
						return s <= 0, true
					case token.GTR:
						return s > 0, true
					case token.GEQ:
						return s >= 0, true
					}
					return false, false
				})
				// lowering when equal is harmless; what matters: lowered when smaller, not raised when larger
				if !known || (sign < 0 && !v) || (sign > 0 && v) {
					good = false
				}
			}
			if good {
				lowered = true
			} else {
				why = "the frame's capacity is replaced by a column's capacity under a condition that is not `column capacity < frame capacity`"
			}
			return true
		})
		c.Check(lowered, q+"|capacity-is-the-smallest-column-capacity", pr.Pos(fn.Body.Pos()),
			q+": "+why+": a frame over columns of different capacities claims rows that a shorter column does not have, and growing it in place (Grow, Ensure, AppendFrame, Slice up to Cap) writes outside that column's storage")
	}
	if fn := c.MustFn("frame.Frame.Ensure"); fn != nil {
		fq := fn.QName()
		le := newLinEnv(pr, fn)
		var grow *ast.CallExpr
		for _, k := range callsIn(fn.Body) {
			if fn.Pkg.CalleeName(k) == "frame.Frame.Grow" && len(k.Args) == 1 {
				grow = k
			}
		}
		okG := false
		got := ""
		if grow != nil {
			got = le.norm(grow.Args[0], 0).String()
			okG = got == (lin{"$p0": 1, "$recv.len": -1}).String()
		}
		c.Check(okG, fq+"|grows-by-n-minus-len", pr.Pos(fn.Body.Pos()),
			"Ensure(n) grows the frame by "+got+" rows, not by n - len (Grow adds to the length): after a shrink followed by growth beyond the capacity the frame has fewer than n rows, and a decoder that sized its scratch frame with it silently drops the tail of a batch")
		// the re-slice arm: taken only when n <= cap, and slices to (0, n)
		okS := false
		ast.Inspect(fn.Body, func(n ast.Node) bool {
			ifs, ok := n.(*ast.IfStmt)
			if !ok {
				return true
			}
			for _, st := range ifs.Body.List {
				r, ok := st.(*ast.ReturnStmt)
				if !ok || len(r.Results) != 1 {
					continue
				}
				k, ok := r.Results[0].(*ast.CallExpr)
				if !ok || fn.Pkg.CalleeName(k) != "frame.Frame.Slice" || len(k.Args) != 2 {
					continue
				}
				if v, isC := constInt(fn.Pkg, k.Args[0]); !isC || v != 0 || le.norm(k.Args[1], 0).String() != (lin{"$p0": 1}).String() {
					continue
				}
				good := true
				for _, sign := range []int{-1, 0, 1} { // n - cap
					v, known := evalCond(ifs.Cond, func(e ast.Expr) (bool, bool) {
						be, ok := ast.Unparen(e).(*ast.BinaryExpr)
						if !ok {
							return false, false
						}
						d := lin{}
						d.addScaled(le.norm(be.X, 0), 1)
						d.addScaled(le.norm(be.Y, 0), -1)
						s := sign
						switch d.String() {
						case (lin{"$p0": 1, "$recv.cap": -1}).String():
						case (lin{"$p0": -1, "$recv.cap": 1}).String():
							s = -sign
						default:
							return false, false
						}
						switch be.Op {
						case token.LSS:
							return s < 0, true
						case token.LEQ:
							return s <= 0, true
						case token.GTR:
							return s > 0, true
						case token.GEQ:
							return s >= 0, true
						}
						return false, false
					})
					if !known || (sign > 0 && v) {
						good = false
					}
				}
				if good {
					okS = true
				}
			}
			return true
		})
		c.Check(okS, fq+"|reslices-only-within-capacity", pr.Pos(fn.Body.Pos()),
			"Ensure(n) re-slices the frame to (0, n) on a path where n may exceed its capacity")
	}
}
