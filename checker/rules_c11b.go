package main

// C11-R6: a frame's capacity never exceeds the storage of any of its columns,
// and Ensure(n) yields exactly n rows.
//
// frame.Slices / frame.Values build a frame over caller-supplied columns: the
// frame's cap must be the *smallest* column capacity (first column's, lowered
// by every later column whose capacity is smaller).  Ensure(n) returns the
// frame itself when len == n, a re-slice when n fits the capacity, and
// otherwise grows by n - len (Grow adds to the length).  Conditions are
// evaluated, expressions compared as linear forms.

import (
	"go/ast"
	"go/token"
	"strings"
)

func c11r6(c *RC) {
	pr := c.P
	for _, q := range []string{"frame.Slices", "frame.Values"} {
		fn := c.MustFn(q)
		if fn == nil {
			continue
		}
		// the variable holding a later column's capacity, and the test that lowers f.cap
		lowered := false
		why := "no statement lowers the frame's capacity to a smaller column capacity"
		ast.Inspect(fn.Body, func(n ast.Node) bool {
			ifs, ok := n.(*ast.IfStmt)
			if !ok || len(ifs.Body.List) != 1 {
				return true
			}
			a, ok := ifs.Body.List[0].(*ast.AssignStmt)
			if !ok || len(a.Lhs) != 1 || len(a.Rhs) != 1 {
				return true
			}
			sel, ok := a.Lhs[0].(*ast.SelectorExpr)
			if !ok || pr.fieldQName(fn.Pkg.FieldOf(sel)) != "frame.Frame.cap" {
				return true
			}
			colCap := expr(a.Rhs[0])
			frameCap := expr(a.Lhs[0])
			// the column capacity comes from Cap() of the column
			fromCap := false
			if as, ok := ifs.Init.(*ast.AssignStmt); ok && len(as.Lhs) == 1 && expr(as.Lhs[0]) == colCap {
				if k, ok := as.Rhs[0].(*ast.CallExpr); ok && strings.HasSuffix(expr(k.Fun), ".Cap") {
					fromCap = true
				}
			}
			if !fromCap {
				return true
			}
			// cond must be true exactly when colCap < frameCap (sign of colCap - frameCap)
			good := true
			for _, sign := range []int{-1, 0, 1} {
				v, known := evalCond(ifs.Cond, func(e ast.Expr) (bool, bool) {
					be, ok := ast.Unparen(e).(*ast.BinaryExpr)
					if !ok {
						return false, false
					}
					s := sign
					switch {
					case expr(be.X) == colCap && expr(be.Y) == frameCap:
					case expr(be.Y) == colCap && expr(be.X) == frameCap:
						s = -sign
					default:
						return false, false
					}
					switch be.Op {
					case token.LSS:
						return s < 0, true
					case token.LEQ:
						return s <= 0, true
					case token.GTR:
						return s > 0, true
					case token.GEQ:
						return s >= 0, true
					}
					return false, false
				})
				// lowering when equal is harmless; what matters: lowered when smaller, not raised when larger
				if !known || (sign < 0 && !v) || (sign > 0 && v) {
					good = false
				}
			}
			if good {
				lowered = true
			} else {
				why = "the frame's capacity is replaced by a column's capacity under a condition that is not `column capacity < frame capacity`"
			}
			return true
		})
		c11columnsChecklist(c, fn, q)
		c.Check(lowered, q+"|capacity-is-the-smallest-column-capacity", pr.Pos(fn.Body.Pos()),
			q+": "+why+": a frame over columns of different capacities claims rows that a shorter column does not have, and growing it in place (Grow, Ensure, AppendFrame, Slice up to Cap) writes outside that column's storage")
	}
	if fn := c.MustFn("frame.Frame.Ensure"); fn != nil {
		fq := fn.QName()
		le := newLinEnv(pr, fn)
		var grow *ast.CallExpr
		for _, k := range callsIn(fn.Body) {
			if fn.Pkg.CalleeName(k) == "frame.Frame.Grow" && len(k.Args) == 1 {
				grow = k
			}
		}
		okG := false
		got := ""
		if grow != nil {
			got = le.norm(grow.Args[0], 0).String()
			okG = got == (lin{"$p0": 1, "$recv.len": -1}).String()
		}
		c.Check(okG, fq+"|grows-by-n-minus-len", pr.Pos(fn.Body.Pos()),
			"Ensure(n) grows the frame by "+got+" rows, not by n - len (Grow adds to the length): after a shrink followed by growth beyond the capacity the frame has fewer than n rows, and a decoder that sized its scratch frame with it silently drops the tail of a batch")
		// the re-slice arm: taken only when n <= cap, and slices to (0, n)
		okS := false
		ast.Inspect(fn.Body, func(n ast.Node) bool {
			ifs, ok := n.(*ast.IfStmt)
			if !ok {
				return true
			}
			for _, st := range ifs.Body.List {
				r, ok := st.(*ast.ReturnStmt)
				if !ok || len(r.Results) != 1 {
					continue
				}
				k, ok := r.Results[0].(*ast.CallExpr)
				if !ok || fn.Pkg.CalleeName(k) != "frame.Frame.Slice" || len(k.Args) != 2 {
					continue
				}
				if v, isC := constInt(fn.Pkg, k.Args[0]); !isC || v != 0 || le.norm(k.Args[1], 0).String() != (lin{"$p0": 1}).String() {
					continue
				}
				good := true
				for _, sign := range []int{-1, 0, 1} { // n - cap
					v, known := evalCond(ifs.Cond, func(e ast.Expr) (bool, bool) {
						be, ok := ast.Unparen(e).(*ast.BinaryExpr)
						if !ok {
							return false, false
						}
						d := lin{}
						d.addScaled(le.norm(be.X, 0), 1)
						d.addScaled(le.norm(be.Y, 0), -1)
						s := sign
						switch d.String() {
						case (lin{"$p0": 1, "$recv.cap": -1}).String():
						case (lin{"$p0": -1, "$recv.cap": 1}).String():
							s = -sign
						default:
							return false, false
						}
						switch be.Op {
						case token.LSS:
							return s < 0, true
						case token.LEQ:
							return s <= 0, true
						case token.GTR:
							return s > 0, true
						case token.GEQ:
							return s >= 0, true
						}
						return false, false
					})
					if !known || (sign > 0 && v) {
						good = false
					}
				}
				if good {
					okS = true
				}
			}
			return true
		})
		c.Check(okS, fq+"|reslices-only-within-capacity", pr.Pos(fn.Body.Pos()),
			"Ensure(n) re-slices the frame to (0, n) on a path where n may exceed its capacity")
	}
}

// c11columnsChecklist: the two constructors over caller-supplied columns are
// siblings; each must (1) take length and capacity from the first column,
// exactly when the column index is 0, (2) panic when a later column's length
// differs, (3) panic on a non-slice column, and (4) store every column's data
// at its own index, unconditionally.
func c11columnsChecklist(c *RC, fn *Func, q string) {
	pr := c.P
	// the loop over the columns
	var loop *ast.RangeStmt
	inspectNoLit(fn.Body, func(n ast.Node) bool {
		if r, ok := n.(*ast.RangeStmt); ok && loop == nil && r.Key != nil {
			loop = r
		}
		return true
	})
	if loop == nil {
		c.Undecide("%s: no loop over the columns", q)
		return
	}
	iv := expr(loop.Key)
	fieldOf := func(e ast.Expr) string {
		if sel, ok := ast.Unparen(e).(*ast.SelectorExpr); ok {
			return pr.fieldQName(fn.Pkg.FieldOf(sel))
		}
		return ""
	}
	panics := func(b *ast.BlockStmt) bool {
		if b == nil || len(b.List) == 0 {
			return false
		}
		es, ok := b.List[0].(*ast.ExprStmt)
		if !ok {
			return false
		}
		k, ok := es.X.(*ast.CallExpr)
		return ok && expr(k.Fun) == "panic"
	}
	firstOK, lenOK, kindOK := false, false, false
	inspectNoLit(loop.Body, func(n ast.Node) bool {
		ifs, ok := n.(*ast.IfStmt)
		if !ok {
			return true
		}
		// (1) the arm taken exactly when the index is 0 sets len and cap
		if v, known := evalCond(ifs.Cond, func(e ast.Expr) (bool, bool) {
			be, ok := ast.Unparen(e).(*ast.BinaryExpr)
			if !ok || (be.Op != token.EQL && be.Op != token.NEQ) {
				return false, false
			}
			x, y := be.X, be.Y
			if expr(y) == iv {
				x, y = y, x
			}
			if z, isC := constInt(fn.Pkg, y); expr(x) == iv && isC && z == 0 {
				return be.Op == token.EQL, true
			}
			return false, false
		}); known {
			arm := ifs.Body
			if !v {
				arm, _ = ifs.Else.(*ast.BlockStmt)
			}
			setLen, setCap := false, false
			if arm != nil {
				for _, st := range arm.List {
					if as, ok := st.(*ast.AssignStmt); ok && len(as.Lhs) == 1 && len(as.Rhs) == 1 {
						switch fieldOf(as.Lhs[0]) {
						case "frame.Frame.len":
							setLen = true
						case "frame.Frame.cap":
							if k, ok := as.Rhs[0].(*ast.CallExpr); ok && strings.HasSuffix(expr(k.Fun), ".Cap") {
								setCap = true
							}
						}
					}
				}
			}
			firstOK = setLen && setCap
		}
		// (2) a length that differs from the frame's panics
		if be, ok := ast.Unparen(ifs.Cond).(*ast.BinaryExpr); ok && (be.Op == token.NEQ || be.Op == token.EQL) {
			if fieldOf(be.X) == "frame.Frame.len" || fieldOf(be.Y) == "frame.Frame.len" {
				arm := ifs.Body
				if be.Op == token.EQL {
					arm, _ = ifs.Else.(*ast.BlockStmt)
				}
				lenOK = panics(arm)
			}
		}
		// (3) non-slice kinds panic
		if v, known := evalCond(ifs.Cond, func(e ast.Expr) (bool, bool) {
			be, ok := ast.Unparen(e).(*ast.BinaryExpr)
			if !ok || (be.Op != token.EQL && be.Op != token.NEQ) {
				return false, false
			}
			for _, pair := range [][2]ast.Expr{{be.X, be.Y}, {be.Y, be.X}} {
				if k, ok := ast.Unparen(pair[0]).(*ast.CallExpr); ok && strings.HasSuffix(expr(k.Fun), ".Kind") {
					if cv, isC := constInt(fn.Pkg, pair[1]); isC && cv == 23 { // reflect.Slice
						return be.Op == token.EQL, true // value when the kind IS Slice
					}
				}
			}
			return false, false
		}); known {
			arm := ifs.Body
			if v { // cond true when it is a slice: the panic must be in the else arm
				arm, _ = ifs.Else.(*ast.BlockStmt)
			}
			kindOK = panics(arm)
		}
		return true
	})
	// (4) data stored at the column's own index, as a direct statement of the loop body
	// — of the checking loop, or of a later top-level loop over the same columns
	// (binding the columns needs the final capacity, which is only known after
	// every column was examined)
	stored := false
	var loops []*ast.RangeStmt
	for _, st := range fn.Body.List {
		if r, ok := st.(*ast.RangeStmt); ok && r.Key != nil && nospace(r.X) == nospace(loop.X) {
			loops = append(loops, r)
		}
	}
	if len(loops) == 0 {
		loops = append(loops, loop)
	}
	for _, lp := range loops {
		for _, st := range lp.Body.List {
			as, ok := st.(*ast.AssignStmt)
			if !ok || len(as.Lhs) != 1 || len(as.Rhs) != 1 {
				continue
			}
			ix, ok := as.Lhs[0].(*ast.IndexExpr)
			if !ok || fieldOf(ix.X) != "frame.Frame.data" || expr(ix.Index) != expr(lp.Key) {
				continue
			}
			if k, ok := as.Rhs[0].(*ast.CallExpr); ok && fn.Pkg.CalleeName(k) == "frame.newData" {
				stored = true
			}
		}
	}
	// (0) the empty frame is returned exactly when there are no columns
	emptyOK := true
	inspectNoLit(fn.Body, func(n ast.Node) bool {
		ifs, ok := n.(*ast.IfStmt)
		if !ok || len(ifs.Body.List) != 1 {
			return true
		}
		ret, ok := ifs.Body.List[0].(*ast.ReturnStmt)
		if !ok || len(ret.Results) != 1 || expr(ret.Results[0]) != "Empty" {
			return true
		}
		v, known := evalCond(ifs.Cond, func(e ast.Expr) (bool, bool) {
			be, ok := ast.Unparen(e).(*ast.BinaryExpr)
			if !ok {
				return false, false
			}
			x, y, op := be.X, be.Y, be.Op
			if _, isC := constInt(fn.Pkg, x); isC {
				x, y = y, x
				op = map[token.Token]token.Token{token.LSS: token.GTR, token.GTR: token.LSS, token.LEQ: token.GEQ, token.GEQ: token.LEQ, token.EQL: token.EQL, token.NEQ: token.NEQ}[op]
			}
			k, isCall := ast.Unparen(x).(*ast.CallExpr)
			z, isC := constInt(fn.Pkg, y)
			if !isCall || expr(k.Fun) != "len" || !isC {
				return false, false
			}
			// value of the comparison when len == 0
			switch op {
			case token.EQL:
				return z == 0, true
			case token.NEQ:
				return z != 0, true
			case token.LSS:
				return 0 < z, true
			case token.LEQ:
				return 0 <= z, true
			case token.GTR:
				return 0 > z, true
			case token.GEQ:
				return 0 >= z, true
			}
			return false, false
		})
		// and false when len == 1
		v1, known1 := evalCond(ifs.Cond, func(e ast.Expr) (bool, bool) {
			be, ok := ast.Unparen(e).(*ast.BinaryExpr)
			if !ok {
				return false, false
			}
			x, y, op := be.X, be.Y, be.Op
			if _, isC := constInt(fn.Pkg, x); isC {
				x, y = y, x
				op = map[token.Token]token.Token{token.LSS: token.GTR, token.GTR: token.LSS, token.LEQ: token.GEQ, token.GEQ: token.LEQ, token.EQL: token.EQL, token.NEQ: token.NEQ}[op]
			}
			k, isCall := ast.Unparen(x).(*ast.CallExpr)
			z, isC := constInt(fn.Pkg, y)
			if !isCall || expr(k.Fun) != "len" || !isC {
				return false, false
			}
			switch op {
			case token.EQL:
				return z == 1, true
			case token.NEQ:
				return z != 1, true
			case token.LSS:
				return 1 < z, true
			case token.LEQ:
				return 1 <= z, true
			case token.GTR:
				return 1 > z, true
			case token.GEQ:
				return 1 >= z, true
			}
			return false, false
		})
		if !known || !known1 || !v || v1 {
			emptyOK = false
		}
		return true
	})
	pos := pr.Pos(loop.Pos())
	c.Check(emptyOK, q+"|empty-only-without-columns", pos, q+": the empty frame is returned although columns were given (or not returned when none were): every frame built from columns is empty")
	c.Check(firstOK, q+"|first-column-sets-length-and-capacity", pos, q+": length and capacity are not taken from the column exactly when its index is 0: the frame reports a length its columns do not have")
	c.Check(lenOK, q+"|unequal-column-lengths-panic", pos, q+": a column whose length differs from the first column's is accepted: rows past the shorter column's end are read from foreign memory")
	c.Check(kindOK, q+"|non-slice-columns-panic", pos, q+": the kind test of a column is inverted or gone: every slice column is rejected, or a non-slice value is used as one")
	c.Check(stored, q+"|every-column-stored-at-its-index", pos, q+": a column's data is not stored at its own index on every iteration: the frame has a nil column")
}
