package main

import (
	"fmt"
	"go/ast"
	"go/token"
	"go/types"
	"strings"

	"golang.org/x/tools/go/cfg"
)

func init() {
	registerProperty(&Property{
		ID:          "C14",
		Explanation: "Decides structural necessary conditions of the capacity accounting: (R1) on every path after a machine is granted by (*machineManager).Offer exactly one Done(procs) is reached with the same procs expression that was requested, and the cancel function is called on the arm that gives up; (R2) taskProcs/health/lastFailure/index/donec are written only by the manager's event loop and its heap methods, taskProcs only as += in the grant arm and -= in the done arm; (R3) schedule returns a machine only behind the fits-test procs <= maxTaskProcs-taskProcs of the returned machine and pushes shelved pairs back; (R4) every health transition in Do is paired with the matching queue move; (R5) request/machine orderings; (R6) the procs clamp precedes Offer and Offer rejects procs<=0; (R7) the local limiter is acquired and released with the same n; (R8) the demand counter is written only as += procs where a request is accepted and -= procs where a task is done or a still-queued request is cancelled, the pending counter only as += count×machprocs where machines are requested and -= machprocs×(started+failed) where the batch reports back, and the count handed to startMachines is (as a linear form, whatever the spelling) min(demand, parallelism limit) − machines held (healthy and on probation) − pending, rounded up to whole machines, behind a guard that establishes a positive shortfall against both bounds. Not decided: the numeric behaviour of that arithmetic over histories, placement optimality, timing.",
		Rules: []Rule{
			{ID: "C14-R1", Doc: "every machine granted by Offer is returned by exactly one Done(procs) on every exit; cancel is called when giving up", Run: c14r1},
			{ID: "C14-R2", Doc: "load and health fields have a single writer (the manager loop)", Run: c14r2},
			{ID: "C14-R3", Doc: "schedule grants only what fits and restores shelved requests/machines", Run: c14r3},
			{ID: "C14-R4", Doc: "health transitions are mirrored by queue moves", Run: c14r4},
			{ID: "C14-R5", Doc: "request and machine orderings", Run: c14r5},
			{ID: "C14-R6", Doc: "procs clamp before Offer; Offer rejects non-positive procs; machprocs>=1", Run: c14r6},
			{ID: "C14-R7", Doc: "local limiter Acquire(n)/Release(n) pairing", Run: c14r7},
			{ID: "C14-R8", Doc: "demand accounting: need/pending are written where the matching event is consumed; machine starts are capped by demand and the parallelism limit, less present and pending capacity", Run: c14r8},
			{ID: "C14-R9", Doc: "indexed heaps keep index == position; load changes are followed by a heap repair", Run: c14r9},
			{ID: "C08-R10", Doc: "a composed pragma answers \"some element asks for it\": an Exclusive task is clamped to the whole machine whatever other pragmas accompany it (shared)", Run: c08r10},
		},
	})
}

const (
	qOffer = "exec.(*machineManager).Offer"
	qDone  = "exec.(*sliceMachine).Done"
)

// selectBodyFor returns the CFG block that is the body of the select clause
// whose comm statement receives from channel identifier ch, and the identifier
// receiving the value.
func selectRecvBodies(fl *Flow, ch string) (blocks []*cfg.Block, recvVar []string, clause []*ast.CommClause) {
	for _, b := range fl.G.Blocks {
		if !b.Live || b.Kind != cfg.KindSelectCaseBody {
			continue
		}
		cc, ok := b.Stmt.(*ast.CommClause)
		if !ok || cc.Comm == nil {
			continue
		}
		var rhs ast.Expr
		var lhs string
		switch c := cc.Comm.(type) {
		case *ast.AssignStmt:
			if len(c.Rhs) == 1 {
				rhs = c.Rhs[0]
			}
			if len(c.Lhs) >= 1 {
				lhs = expr(c.Lhs[0])
			}
		case *ast.ExprStmt:
			rhs = c.X
		}
		u, ok := ast.Unparen(rhs).(*ast.UnaryExpr)
		if !ok || u.Op != token.ARROW {
			continue
		}
		if expr(u.X) == ch {
			blocks = append(blocks, b)
			recvVar = append(recvVar, lhs)
			clause = append(clause, cc)
		}
	}
	return
}

// deferredCalls returns calls made (unconditionally, at top level) by a defer
// statement: the call itself, or the top-level expression statements of a
// deferred function literal.
func deferredCalls(d *ast.DeferStmt) []*ast.CallExpr {
	if lit, ok := d.Call.Fun.(*ast.FuncLit); ok {
		var out []*ast.CallExpr
		for _, s := range lit.Body.List {
			if es, ok := s.(*ast.ExprStmt); ok {
				if c, ok := es.X.(*ast.CallExpr); ok {
					out = append(out, c)
				}
			}
		}
		return out
	}
	return []*ast.CallExpr{d.Call}
}

func c14r1(c *RC) {
	pr := c.P
	sites := 0
	for _, fn := range pr.FuncsIn("exec") {
		if fn.Body == nil {
			continue
		}
		var offers []*ast.AssignStmt
		var offerSpecs []*ast.ValueSpec
		inspectNoLit(fn.Body, func(n ast.Node) bool {
			switch a := n.(type) {
			case *ast.AssignStmt:
				if len(a.Rhs) == 1 {
					if _, ok := fn.Pkg.isCall(a.Rhs[0], qOffer); ok {
						offers = append(offers, a)
					}
				}
			case *ast.ValueSpec:
				if len(a.Values) == 1 {
					if _, ok := fn.Pkg.isCall(a.Values[0], qOffer); ok {
						offerSpecs = append(offerSpecs, a)
					}
				}
			}
			return true
		})
		type offer struct {
			call         *ast.CallExpr
			chanV, cancV string
		}
		var os []offer
		for _, a := range offers {
			if len(a.Lhs) == 2 {
				os = append(os, offer{a.Rhs[0].(*ast.CallExpr), expr(a.Lhs[0]), expr(a.Lhs[1])})
			}
		}
		for _, a := range offerSpecs {
			if len(a.Names) == 2 {
				os = append(os, offer{a.Values[0].(*ast.CallExpr), a.Names[0].Name, a.Names[1].Name})
			}
		}
		for _, o := range os {
			sites++
			c14r1site(c, fn, o.call, o.chanV, o.cancV)
		}
	}
	// any other use of Offer (result not bound to two names) cannot be tracked
	total := 0
	for _, fn := range pr.Funcs() {
		if fn.Body == nil {
			continue
		}
		for _, call := range callsIn(fn.Body) {
			if _, ok := fn.Pkg.isCall(call, qOffer); ok {
				total++
			}
		}
	}
	if total != sites {
		c.Undecide("%d call(s) of Offer whose results are not bound to (channel, cancel) names", total-sites)
	}
	c.Floor("functions taking a machine from Offer", sites, 1)
}

func c14r1site(c *RC, fn *Func, offer *ast.CallExpr, chanV, cancV string) {
	pr := c.P
	fl := pr.Flow(fn)
	fq := fn.QName()
	if len(offer.Args) != 2 {
		c.Undecide("%s: Offer call with %d args", fq, len(offer.Args))
		return
	}
	procsExpr := expr(offer.Args[1])
	_, isIdent := offer.Args[1].(*ast.Ident)
	c.Check(isIdent, fq+"|offer-procs-is-variable", pr.Pos(offer.Pos()),
		"the procs argument of Offer is not a plain variable, so it cannot be tied to the Done calls: "+procsExpr)
	bodies, recvVars, clauses := selectRecvBodies(fl, chanV)
	type start struct {
		loc Loc
		m   string
	}
	var starts []start
	for i, b := range bodies {
		starts = append(starts, start{Loc{b, 0}, recvVars[i]})
	}
	// plain receives: m := <-offerc / m = <-offerc as a statement
	for _, b := range fl.G.Blocks {
		if !b.Live {
			continue
		}
		for i, n := range b.Nodes {
			a, ok := n.(*ast.AssignStmt)
			if !ok || len(a.Rhs) != 1 {
				continue
			}
			u, ok := ast.Unparen(a.Rhs[0]).(*ast.UnaryExpr)
			if !ok || u.Op != token.ARROW || expr(u.X) != chanV {
				continue
			}
			inSelect := false
			for _, cc := range clauses {
				if cc.Comm == n {
					inSelect = true
				}
			}
			if inSelect {
				continue
			}
			starts = append(starts, start{Loc{b, i + 1}, expr(a.Lhs[0])})
		}
	}
	if len(starts) == 0 {
		c.Undecide("%s: no receive from the Offer channel %s found", fq, chanV)
		return
	}
	for _, st := range starts {
		m := st.m
		if m == "" || m == "_" {
			c.Fail(fq+"|granted-machine-dropped", pr.Pos(st.loc.B.Stmt.Pos()), "the machine received from Offer is not bound to a variable, so its procs can never be returned")
			continue
		}
		// simple aliases of the machine variable (x := m) name the same machine
		alias := map[string]bool{m: true}
		inspectNoLit(fn.Body, func(k ast.Node) bool {
			if a, ok := k.(*ast.AssignStmt); ok && len(a.Lhs) == len(a.Rhs) {
				for i := range a.Lhs {
					if id, ok := a.Rhs[i].(*ast.Ident); ok && alias[id.Name] {
						if l, ok := a.Lhs[i].(*ast.Ident); ok && fl.assignCount[l.Name] == 1 {
							alias[l.Name] = true
						}
					}
				}
			}
			return true
		})
		isDone := func(call *ast.CallExpr) bool {
			if _, ok := fn.Pkg.isCall(call, qDone); !ok {
				return false
			}
			sel, ok := call.Fun.(*ast.SelectorExpr)
			return ok && alias[expr(sel.X)]
		}
		nExits := 0
		// state: "<count>/<deferred>/<procsModified>"
		fl.Walk(st.loc, "0/0/0", nil, Visitor{
			Node: func(n ast.Node, x string, s *Step) (string, bool) {
				var cnt, def, mod int
				fmt.Sscanf(x, "%d/%d/%d", &cnt, &def, &mod)
				if d, ok := n.(*ast.DeferStmt); ok {
					for _, dc := range deferredCalls(d) {
						if isDone(dc) {
							def++
							c14checkDoneArg(c, fn, dc, procsExpr, mod, pr)
						}
					}
					return fmt.Sprintf("%d/%d/%d", cnt, def, mod), false
				}
				if _, ok := n.(*ast.GoStmt); ok {
					return x, false
				}
				inspectNoLit(n, func(k ast.Node) bool {
					switch a := k.(type) {
					case *ast.CallExpr:
						if isDone(a) {
							cnt++
							c14checkDoneArg(c, fn, a, procsExpr, mod, pr)
						}
					case *ast.AssignStmt:
						for _, l := range a.Lhs {
							if expr(l) == procsExpr {
								mod = 1
							}
							if expr(l) == m {
								// the machine variable is overwritten: treat as losing it
								cnt += 0
							}
						}
					case *ast.IncDecStmt:
						if expr(a.X) == procsExpr {
							mod = 1
						}
					}
					return true
				})
				if cnt > 2 {
					cnt = 2
				}
				return fmt.Sprintf("%d/%d/%d", cnt, def, mod), false
			},
			Exit: func(kind ExitKind, ret *ast.ReturnStmt, x string, s *Step) {
				if kind == ExitPanic {
					return
				}
				var cnt, def, mod int
				fmt.Sscanf(x, "%d/%d/%d", &cnt, &def, &mod)
				nExits++
				tot := cnt + def
				key := fq + "|exit:" + exitKey(fl, s, ret)
				pos := fl.exitPos(s, ret)
				switch {
				case tot == 0:
					c.Fail(key+"|no-Done", pos, fmt.Sprintf("machine %s granted by Offer is not returned on this exit: no %s.Done(%s, ...) on the path — its procs leak", m, m, procsExpr), s.Trail()...)
				case tot > 1:
					c.Fail(key+"|double-Done", pos, fmt.Sprintf("%s.Done is reached %d times on this path: procs returned more than once", m, tot), s.Trail()...)
				default:
					c.Pass(key, pos, "exactly one Done")
				}
			},
		})
		if nExits == 0 {
			c.Undecide("%s: no exit reachable after the grant", fq)
		}
	}
	// the arms that give up must cancel the request
	if len(clauses) > 0 {
		var sel *ast.SelectStmt
		ast.Inspect(fn.Body, func(n ast.Node) bool {
			if s, ok := n.(*ast.SelectStmt); ok {
				for _, cc := range s.Body.List {
					if cc == ast.Stmt(clauses[0]) {
						sel = s
					}
				}
			}
			return true
		})
		if sel != nil {
			for _, cc := range sel.Body.List {
				clause := cc.(*ast.CommClause)
				if clause == clauses[0] {
					continue
				}
				var body *cfg.Block
				for _, b := range fl.G.Blocks {
					if b.Live && b.Kind == cfg.KindSelectCaseBody && b.Stmt == ast.Stmt(clause) {
						body = b
					}
				}
				if body == nil {
					// default clause: statements are inlined in the header's fallthrough; skip
					continue
				}
				armKey := fq + "|give-up-arm:" + expr(commExpr(clause))
				fl.Walk(Loc{body, 0}, "0", nil, Visitor{
					Node: func(n ast.Node, x string, s *Step) (string, bool) {
						hit := false
						inspectNoLit(n, func(k ast.Node) bool {
							if call, ok := k.(*ast.CallExpr); ok {
								if id, ok := call.Fun.(*ast.Ident); ok && id.Name == cancV {
									hit = true
								}
							}
							return true
						})
						if d, ok := n.(*ast.DeferStmt); ok {
							for _, dc := range deferredCalls(d) {
								if id, ok := dc.Fun.(*ast.Ident); ok && id.Name == cancV {
									hit = true
								}
							}
						}
						if hit {
							return "1", false
						}
						return x, false
					},
					Exit: func(kind ExitKind, ret *ast.ReturnStmt, x string, s *Step) {
						if kind == ExitPanic {
							return
						}
						c.Check(x == "1", armKey, fl.exitPos(s, ret),
							"the select arm that gives up waiting for a machine leaves without calling the cancel function returned by Offer: the request stays queued and a machine may be granted to nobody", s.Trail()...)
					},
				})
			}
		}
	}
}

func commExpr(cc *ast.CommClause) ast.Expr {
	switch c := cc.Comm.(type) {
	case *ast.ExprStmt:
		return c.X
	case *ast.AssignStmt:
		if len(c.Rhs) == 1 {
			return c.Rhs[0]
		}
	case *ast.SendStmt:
		return c.Chan
	}
	return nil
}

// exitKey gives an exit a line-independent identity: the text of the last
// call statement before it (or of the return).
func exitKey(fl *Flow, s *Step, ret *ast.ReturnStmt) string {
	// the nearest preceding call statement in the exit's block
	b := s.Block
	for i := len(b.Nodes) - 1; i >= 0; i-- {
		n := b.Nodes[i]
		if n == ast.Node(ret) {
			if ret != nil && len(ret.Results) > 0 {
				return "return " + expr(ret.Results[0])
			}
			continue
		}
		if es, ok := n.(*ast.ExprStmt); ok {
			if call, ok := es.X.(*ast.CallExpr); ok {
				t := expr(call.Fun)
				if len(call.Args) > 0 {
					if bl, ok := call.Args[0].(*ast.BasicLit); ok {
						t += "(" + bl.Value + ")"
					} else {
						t += "(" + expr(call.Args[0]) + ")"
					}
				}
				return "after " + t
			}
		}
		if as, ok := n.(*ast.AssignStmt); ok {
			return "after " + expr(as.Lhs[0]) + " " + as.Tok.String()
		}
	}
	if ret != nil {
		return "return"
	}
	return "end"
}

func c14checkDoneArg(c *RC, fn *Func, call *ast.CallExpr, procsExpr string, mod int, pr *Prog) {
	key := fn.QName() + "|Done-procs-arg"
	if len(call.Args) < 1 {
		return
	}
	got := expr(call.Args[0])
	c.Check(got == procsExpr, key, pr.Pos(call.Pos()),
		fmt.Sprintf("Done returns %q but Offer requested %q: the manager's load for the machine drifts", got, procsExpr))
	c.Check(mod == 0, fn.QName()+"|procs-reassigned", pr.Pos(call.Pos()),
		fmt.Sprintf("%s is reassigned between the grant and this Done: a different number of procs is returned than was taken", procsExpr))
}

// ---------------------------------------------------------------------------
// R2: single writer

func c14r2(c *RC) {
	pr := c.P
	owners := map[string]map[string]bool{
		"exec.sliceMachine.taskProcs":   {"exec.(*machineManager).Do": true},
		"exec.sliceMachine.health":      {"exec.(*machineManager).Do": true},
		"exec.sliceMachine.lastFailure": {"exec.(*machineManager).Do": true},
		"exec.sliceMachine.donec":       {"exec.(*machineManager).Do": true},
		"exec.sliceMachine.index": {"exec.machineQ.Swap": true, "exec.(*machineQ).Push": true, "exec.(*machineQ).Pop": true,
			"exec.machineFailureQ.Swap": true, "exec.(*machineFailureQ).Push": true, "exec.(*machineFailureQ).Pop": true},
		"exec.sliceMachine.maxTaskProcs": {},
	}
	writes := map[string]int{}
	for _, fn := range pr.FuncsIn("exec") {
		if fn.Body == nil || fn.Parent != nil {
			continue
		}
		root := fn.QName()
		ast.Inspect(fn.Body, func(n ast.Node) bool {
			var lhs []ast.Expr
			tok := token.ASSIGN
			switch a := n.(type) {
			case *ast.AssignStmt:
				lhs = a.Lhs
				tok = a.Tok
			case *ast.IncDecStmt:
				lhs = []ast.Expr{a.X}
				tok = a.Tok
			case *ast.UnaryExpr:
				if a.Op == token.AND {
					lhs = []ast.Expr{a.X}
					tok = token.AND
				}
			}
			for _, l := range lhs {
				sel, ok := ast.Unparen(l).(*ast.SelectorExpr)
				if !ok {
					continue
				}
				fq := pr.fieldQName(fn.Pkg.FieldOf(sel))
				own, tracked := owners[fq]
				if !tracked {
					continue
				}
				writes[fq]++
				key := root + "|writes:" + fq
				c.Check(own[root], key, pr.Pos(l.Pos()),
					fmt.Sprintf("%s is written outside its single owner (the manager's event loop): %s %s — the load/health the scheduler sees no longer matches what was granted", fq, expr(l), tok))
				if fq == "exec.sliceMachine.taskProcs" && own[root] {
					ok := tok == token.ADD_ASSIGN || tok == token.SUB_ASSIGN
					c.Check(ok, root+"|taskProcs-op", pr.Pos(l.Pos()), "taskProcs must only be adjusted by += (grant) and -= (done), found "+tok.String())
				}
			}
			return true
		})
	}
	// composite literals may initialise maxTaskProcs; nothing else
	c.Floor("writes of taskProcs", writes["exec.sliceMachine.taskProcs"], 2)
	c.Floor("writes of health", writes["exec.sliceMachine.health"], 3)

	// shape of the two taskProcs writes: += req.procs in the arm that sends the
	// machine; -= done.procs in the arm that receives a machineDone.
	do := c.MustFn("exec.(*machineManager).Do")
	if do == nil {
		return
	}
	var sel *ast.SelectStmt
	ast.Inspect(do.Body, func(n ast.Node) bool {
		if s, ok := n.(*ast.SelectStmt); ok && sel == nil {
			sel = s
		}
		return true
	})
	if sel == nil {
		c.Undecide("no select in Do")
		return
	}
	grantOK, doneOK := false, false
	for _, cs := range sel.Body.List {
		cc := cs.(*ast.CommClause)
		switch comm := cc.Comm.(type) {
		case *ast.SendStmt:
			// machc <- mach
			sent := expr(comm.Value)
			for _, st := range cc.Body {
				if a, ok := st.(*ast.AssignStmt); ok && a.Tok == token.ADD_ASSIGN && len(a.Lhs) == 1 {
					if s, ok := a.Lhs[0].(*ast.SelectorExpr); ok && pr.fieldQName(do.Pkg.FieldOf(s)) == "exec.sliceMachine.taskProcs" {
						rhs, _ := a.Rhs[0].(*ast.SelectorExpr)
						good := expr(s.X) == sent && rhs != nil && pr.fieldQName(do.Pkg.FieldOf(rhs)) == "exec.scheduleRequest.procs"
						c.Check(good, "exec.(*machineManager).Do|grant-arm-adds-request-procs", pr.Pos(a.Pos()),
							"the grant arm must add the granted request's procs to the machine it just sent: "+expr(a.Lhs[0])+" += "+expr(a.Rhs[0]))
						grantOK = true
					}
				}
			}
		case *ast.AssignStmt:
			u, ok := ast.Unparen(comm.Rhs[0]).(*ast.UnaryExpr)
			if !ok {
				continue
			}
			tv := do.Pkg.Info.Types[u.X]
			if tv.Type == nil {
				continue
			}
			ch, ok := tv.Type.Underlying().(*types.Chan)
			if !ok || namedQName(ch.Elem()) != "exec.machineDone" {
				continue
			}
			dn := expr(comm.Lhs[0])
			for _, st := range cc.Body {
				if a, ok := st.(*ast.AssignStmt); ok && a.Tok == token.SUB_ASSIGN && len(a.Lhs) == 1 {
					if s, ok := a.Lhs[0].(*ast.SelectorExpr); ok && pr.fieldQName(do.Pkg.FieldOf(s)) == "exec.sliceMachine.taskProcs" {
						good := expr(a.Rhs[0]) == dn+".procs"
						c.Check(good, "exec.(*machineManager).Do|done-arm-subtracts-done-procs", pr.Pos(a.Pos()),
							"the done arm must subtract the procs reported by the Done message: "+expr(a.Lhs[0])+" -= "+expr(a.Rhs[0]))
						doneOK = true
					}
				}
			}
		}
	}
	c.Check(grantOK, "exec.(*machineManager).Do|grant-arm-accounts", pr.Pos(sel.Pos()), "no `mach.taskProcs += req.procs` in the arm that sends the machine to the requester: grants are not accounted, machines get oversubscribed")
	c.Check(doneOK, "exec.(*machineManager).Do|done-arm-accounts", pr.Pos(sel.Pos()), "no `mach.taskProcs -= done.procs` in the arm that receives Done: returned procs are never freed")
}

// ---------------------------------------------------------------------------
// R3: schedule

func c14r3(c *RC) {
	pr := c.P
	fn := c.MustFn("exec.schedule")
	if fn == nil {
		return
	}
	fl := pr.Flow(fn)
	fq := fn.QName()
	// every return with non-nil results must be dominated by
	// `(*schedQ)[0].procs <= freeProcs`, with freeProcs defined as
	// maxTaskProcs - taskProcs of the machine returned.
	var freeDef *ast.AssignStmt
	inspectNoLit(fn.Body, func(n ast.Node) bool {
		if a, ok := n.(*ast.AssignStmt); ok && len(a.Lhs) == 1 && len(a.Rhs) == 1 {
			if be, ok := a.Rhs[0].(*ast.BinaryExpr); ok && be.Op == token.SUB {
				x, xok := be.X.(*ast.SelectorExpr)
				y, yok := be.Y.(*ast.SelectorExpr)
				if xok && yok && pr.fieldQName(fn.Pkg.FieldOf(x)) == "exec.sliceMachine.maxTaskProcs" && pr.fieldQName(fn.Pkg.FieldOf(y)) == "exec.sliceMachine.taskProcs" {
					freeDef = a
				}
			}
		}
		return true
	})
	if freeDef == nil {
		c.Fail(fq+"|free-procs-definition", pr.Pos(fn.Body.Pos()), "schedule no longer computes the free procs of a machine as maxTaskProcs - taskProcs")
		return
	}
	be := freeDef.Rhs[0].(*ast.BinaryExpr)
	machX := expr(be.X.(*ast.SelectorExpr).X)
	machY := expr(be.Y.(*ast.SelectorExpr).X)
	freeVar := expr(freeDef.Lhs[0])
	c.Check(machX == machY, fq+"|free-procs-same-machine", pr.Pos(freeDef.Pos()), "free procs computed from two different machines: "+expr(freeDef.Rhs[0]))
	nret := 0
	for _, loc := range fl.FindAll(func(n ast.Node) bool { _, ok := n.(*ast.ReturnStmt); return ok }) {
		ret := loc.B.Nodes[loc.I].(*ast.ReturnStmt)
		if len(ret.Results) != 2 {
			continue
		}
		if tv, ok := fn.Pkg.Info.Types[ret.Results[0]]; ok && tv.IsNil() {
			continue
		}
		nret++
		reqE, machE := expr(ret.Results[0]), expr(ret.Results[1])
		c.Check(machE == machX, fq+"|returned-machine-is-the-measured-one", pr.Pos(ret.Pos()),
			fmt.Sprintf("schedule returns machine %s but measured the free procs of %s", machE, machX))
		// dominated by the fits test on the true edge
		ok, wit := fl.Dominated(loc, func(n ast.Node, s *Step) bool { return false })
		_ = ok
		_ = wit
		fits := false
		var trail []string
		fl.Walk(fl.Entry(), "", nil, Visitor{
			NoFacts: true,
			Enter: func(from, to *cfg.Block, x string, s *Step) (string, bool) {
				cond := fl.edgeCond(from)
				if cond == nil {
					return x, false
				}
				if from.Succs[0] == to && c14isFits(cond, reqE, freeVar) {
					return "fits", false
				}
				if from.Succs[0] != to && c14isNotFits(cond, reqE, freeVar) {
					return "fits", false
				}
				return x, false
			},
			Node: func(n ast.Node, x string, s *Step) (string, bool) {
				if n == ast.Node(ret) {
					if x != "fits" {
						trail = s.Trail()
					} else {
						fits = true
					}
					return x, true
				}
				// reassigning the free-procs variable invalidates the test
				if a, ok := n.(*ast.AssignStmt); ok {
					for _, l := range a.Lhs {
						if expr(l) == freeVar {
							return "", false
						}
					}
				}
				return x, false
			},
		})
		c.Check(trail == nil && fits, fq+"|grant-behind-fits-test", pr.Pos(ret.Pos()),
			fmt.Sprintf("schedule returns (%s, %s) on a path that does not pass the test %s.procs <= %s: a request larger than the machine's free procs is granted", reqE, machE, reqE, freeVar), trail...)
	}
	c.Floor("granting returns in schedule", nret, 1)
	// shelved requests and machines are pushed back by a defer
	var popReq, popMach, pushReq, pushMach bool
	ast.Inspect(fn.Body, func(n ast.Node) bool {
		call, ok := n.(*ast.CallExpr)
		if !ok {
			return true
		}
		cn := fn.Pkg.CalleeName(call)
		if len(call.Args) == 0 {
			return true
		}
		switch cn {
		case "container/heap.Pop":
			if queueRole(fn.Pkg, call.Args[0]) == "req" {
				popReq = true
			} else if queueRole(fn.Pkg, call.Args[0]) == "mach" {
				popMach = true
			}
		case "container/heap.Push":
			if queueRole(fn.Pkg, call.Args[0]) == "req" {
				pushReq = true
			} else if queueRole(fn.Pkg, call.Args[0]) == "mach" {
				pushMach = true
			}
		}
		return true
	})
	if popReq || popMach {
		// pushes must sit in a deferred literal installed before the loop
		deferred := false
		for _, st := range fn.Body.List {
			d, ok := st.(*ast.DeferStmt)
			if !ok {
				continue
			}
			if lit, ok := d.Call.Fun.(*ast.FuncLit); ok {
				hasReq, hasMach := false, false
				ast.Inspect(lit.Body, func(n ast.Node) bool {
					if call, ok := n.(*ast.CallExpr); ok && fn.Pkg.CalleeName(call) == "container/heap.Push" && len(call.Args) > 0 {
						if queueRole(fn.Pkg, call.Args[0]) == "req" {
							hasReq = true
						}
						if queueRole(fn.Pkg, call.Args[0]) == "mach" {
							hasMach = true
						}
					}
					return true
				})
				if (hasReq || !popReq) && (hasMach || !popMach) {
					deferred = true
				}
			}
		}
		c.Check(deferred && (pushReq || !popReq) && (pushMach || !popMach), fq+"|shelved-pairs-restored", pr.Pos(fn.Body.Pos()),
			"requests/machines popped while searching are not pushed back by a defer covering every return: queued requests or machine capacity are lost")
	} else {
		c.Pass(fq+"|shelved-pairs-restored", pr.Pos(fn.Body.Pos()), "schedule does not pop")
	}
	// callers pass only machQ of healthy machines: every call of schedule has &machQ as second arg
	ncall := 0
	for _, f := range pr.FuncsIn("exec") {
		if f.Body == nil {
			continue
		}
		for _, call := range callsIn(f.Body) {
			if _, ok := f.Pkg.isCall(call, "exec.schedule"); ok && len(call.Args) == 2 {
				ncall++
				c.Check(queueRole(f.Pkg, call.Args[1]) == "mach", f.QName()+"|schedule-on-healthy-queue", pr.Pos(call.Pos()),
					"schedule is offered a queue other than the queue of healthy machines: "+expr(call.Args[1]))
			}
		}
	}
	c.Floor("calls of schedule", ncall, 1)
}

// c14isFits: cond is `<req>.procs <= <free>` (or `<free> >= <req>.procs`).
func c14isFits(cond ast.Expr, req, free string) bool {
	be, ok := ast.Unparen(cond).(*ast.BinaryExpr)
	if !ok {
		return false
	}
	l, r := expr(be.X), expr(be.Y)
	switch be.Op {
	case token.LEQ:
		return l == req+".procs" && r == free
	case token.GEQ:
		return r == req+".procs" && l == free
	}
	return false
}

// c14isNotFits: cond is `<req>.procs > <free>` (or `<free> < <req>.procs`).
func c14isNotFits(cond ast.Expr, req, free string) bool {
	be, ok := ast.Unparen(cond).(*ast.BinaryExpr)
	if !ok {
		return false
	}
	l, r := expr(be.X), expr(be.Y)
	switch be.Op {
	case token.GTR:
		return l == req+".procs" && r == free
	case token.LSS:
		return r == req+".procs" && l == free
	}
	return false
}

// ---------------------------------------------------------------------------
// R4: health transitions mirrored by queue moves

func c14r4(c *RC) {
	pr := c.P
	fn := c.MustFn("exec.(*machineManager).Do")
	if fn == nil {
		return
	}
	fq := fn.QName()
	// For each assignment `X.health = H` find the statement list it sits in and
	// collect the heap operations of that list on machQ / probation.
	type ops struct{ rmMach, pushMach, rmProb, pushProb bool }
	n := 0
	var visitList func(list []ast.Stmt)
	collect := func(list []ast.Stmt) ops {
		var o ops
		for _, st := range list {
			ast.Inspect(st, func(k ast.Node) bool {
				call, ok := k.(*ast.CallExpr)
				if !ok || len(call.Args) == 0 {
					return true
				}
				cn := fn.Pkg.CalleeName(call)
				q := queueRole(fn.Pkg, call.Args[0])
				switch {
				case cn == "container/heap.Remove" && q == "mach":
					o.rmMach = true
				case cn == "container/heap.Remove" && q == "prob":
					o.rmProb = true
				case cn == "container/heap.Push" && q == "mach":
					o.pushMach = true
				case cn == "container/heap.Push" && q == "prob":
					o.pushProb = true
				}
				return true
			})
		}
		return o
	}
	visitList = func(list []ast.Stmt) {
		for _, st := range list {
			if a, ok := st.(*ast.AssignStmt); ok && len(a.Lhs) == 1 && a.Tok == token.ASSIGN {
				if s, ok := a.Lhs[0].(*ast.SelectorExpr); ok && pr.fieldQName(fn.Pkg.FieldOf(s)) == "exec.sliceMachine.health" {
					n++
					val := expr(a.Rhs[0])
					o := collect(list)
					key := fq + "|health=" + val
					switch val {
					case "machineOk":
						// comes from probation: leaves probation, enters machQ
						c.Check(o.rmProb && o.pushMach, key, pr.Pos(a.Pos()),
							"a machine is marked healthy without being moved from the probation queue to the machine queue: it is healthy but never offered work (capacity leaks), or stays scheduled for a second probation expiry")
					case "machineProbation":
						c.Check(o.rmMach && o.pushProb, key, pr.Pos(a.Pos()),
							"a machine is put on probation without leaving the machine queue / entering the probation queue: it keeps receiving new work while on probation")
					case "machineLost":
						// removal happens in the preceding switch on the old health
						okRm := false
						for _, st2 := range list {
							if sw, ok := st2.(*ast.SwitchStmt); ok && sw.Tag != nil {
								if ts, ok := sw.Tag.(*ast.SelectorExpr); ok && pr.fieldQName(fn.Pkg.FieldOf(ts)) == "exec.sliceMachine.health" {
									var okArm, probArm bool
									for _, cs := range sw.Body.List {
										cc := cs.(*ast.CaseClause)
										oo := collect(cc.Body)
										for _, e := range cc.List {
											if expr(e) == "machineOk" && oo.rmMach {
												okArm = true
											}
											if expr(e) == "machineProbation" && oo.rmProb {
												probArm = true
											}
										}
									}
									okRm = okArm && probArm
								}
							}
						}
						c.Check(okRm, key, pr.Pos(a.Pos()),
							"a stopped machine is marked lost without being removed from the queue its previous health placed it in: stopped machines keep receiving work")
					default:
						c.Fail(key, pr.Pos(a.Pos()), "unknown health value "+val)
					}
				}
			}
			// recurse into nested statement lists
			switch s := st.(type) {
			case *ast.BlockStmt:
				visitList(s.List)
			case *ast.IfStmt:
				visitList(s.Body.List)
				if e, ok := s.Else.(*ast.BlockStmt); ok {
					visitList(e.List)
				} else if e, ok := s.Else.(*ast.IfStmt); ok {
					visitList([]ast.Stmt{e})
				}
			case *ast.ForStmt:
				visitList(s.Body.List)
			case *ast.RangeStmt:
				visitList(s.Body.List)
			case *ast.SwitchStmt:
				for _, cs := range s.Body.List {
					visitList(cs.(*ast.CaseClause).Body)
				}
			case *ast.SelectStmt:
				for _, cs := range s.Body.List {
					visitList(cs.(*ast.CommClause).Body)
				}
			case *ast.LabeledStmt:
				visitList([]ast.Stmt{s.Stmt})
			}
		}
	}
	visitList(fn.Body.List)
	c.Floor("health transitions in Do", n, 4)
}

// ---------------------------------------------------------------------------
// R5: orderings

func c14r5(c *RC) {
	pr := c.P
	if fn := c.MustFn("exec.scheduleRequestQ.Less"); fn != nil {
		fq := fn.QName()
		// shape: if q[i].priority != q[j].priority { return q[i].priority < q[j].priority }; return q[i].procs > q[j].procs
		var prioCmp, procsCmp *ast.BinaryExpr
		var procsRet *ast.ReturnStmt
		ast.Inspect(fn.Body, func(n ast.Node) bool {
			ret, ok := n.(*ast.ReturnStmt)
			if !ok || len(ret.Results) != 1 {
				return true
			}
			be, ok := ast.Unparen(ret.Results[0]).(*ast.BinaryExpr)
			if !ok {
				return true
			}
			if strings.HasSuffix(expr(be.X), ".priority") {
				prioCmp = be
			}
			if strings.HasSuffix(expr(be.X), ".procs") {
				procsCmp = be
				procsRet = ret
			}
			return true
		})
		i, j := paramNames(fn)
		lessRecv = recvOf(fn)
		okPrio := prioCmp != nil && lessLike(prioCmp, i, j, "priority", true)
		c.Check(okPrio, fq+"|priority-ascending", pr.Pos(fn.Body.Pos()), "requests are no longer ordered by ascending priority value")
		okProcs := procsCmp != nil && lessLike(procsCmp, i, j, "procs", false)
		c.Check(okProcs, fq+"|procs-descending", pr.Pos(fn.Body.Pos()), "within a priority, larger requests no longer come first (first-fit-decreasing)")
		if procsRet != nil && prioCmp != nil {
			// the procs comparison must only be reached when priorities are equal
			fl := pr.Flow(fn)
			loc, ok := fl.LocOf(procsRet)
			if ok {
				reach := true
				fl.Walk(fl.Entry(), "", nil, Visitor{NoFacts: true,
					Enter: func(from, to *cfg.Block, x string, s *Step) (string, bool) {
						cond := fl.edgeCond(from)
						if cond == nil {
							return x, false
						}
						be, ok := ast.Unparen(cond).(*ast.BinaryExpr)
						if ok && strings.HasSuffix(expr(be.X), ".priority") && strings.HasSuffix(expr(be.Y), ".priority") {
							if (be.Op == token.NEQ && from.Succs[1] == to) || (be.Op == token.EQL && from.Succs[0] == to) {
								return "eq", false
							}
						}
						return x, false
					},
					Node: func(n ast.Node, x string, s *Step) (string, bool) {
						if s.Block == loc.B && s.Idx == loc.I && x != "eq" {
							reach = false
						}
						return x, false
					}})
				c.Check(reach, fq+"|procs-only-breaks-ties", pr.Pos(procsRet.Pos()), "the procs comparison is reached without the priorities having been found equal")
			}
		}
	}
	if fn := c.MustFn("exec.machineQ.Less"); fn != nil {
		fq := fn.QName()
		i, j := paramNames(fn)
		q := recvOf(fn)
		// free(i) > free(j)  i.e. q[j].max-q[j].task < q[i].max-q[i].task
		ok := false
		ast.Inspect(fn.Body, func(n ast.Node) bool {
			ret, isRet := n.(*ast.ReturnStmt)
			if !isRet || len(ret.Results) != 1 {
				return true
			}
			be, isBe := ast.Unparen(ret.Results[0]).(*ast.BinaryExpr)
			if !isBe {
				return true
			}
			fi := func(e ast.Expr, idx string) bool {
				s, isS := ast.Unparen(e).(*ast.BinaryExpr)
				if !isS || s.Op != token.SUB {
					return false
				}
				return expr(s.X) == q+"["+idx+"].maxTaskProcs" && expr(s.Y) == q+"["+idx+"].taskProcs"
			}
			switch be.Op {
			case token.LSS:
				ok = fi(be.X, j) && fi(be.Y, i)
			case token.GTR:
				ok = fi(be.X, i) && fi(be.Y, j)
			}
			return true
		})
		c.Check(ok, fq+"|most-free-first", pr.Pos(fn.Body.Pos()), "machines are no longer ordered by free procs descending, which schedule's early exit (`freeProcs == 0` on the top machine means nothing fits anywhere) relies on")
	}
}

func paramNames(fn *Func) (string, string) {
	var names []string
	for _, f := range fn.Type.Params.List {
		for _, n := range f.Names {
			names = append(names, n.Name)
		}
	}
	if len(names) >= 2 {
		return names[0], names[1]
	}
	return "i", "j"
}

var lessRecv = "q"

// lessLike: be compares q[i].f with q[j].f ascending (asc) or descending.
func lessLike(be *ast.BinaryExpr, i, j, f string, asc bool) bool {
	l, r := expr(be.X), expr(be.Y)
	li, lj := lessRecv+"["+i+"]."+f, lessRecv+"["+j+"]."+f
	switch be.Op {
	case token.LSS:
		if asc {
			return l == li && r == lj
		}
		return l == lj && r == li
	case token.GTR:
		if asc {
			return l == lj && r == li
		}
		return l == li && r == lj
	}
	return false
}

// ---------------------------------------------------------------------------
// R6: clamp

func c14r6(c *RC) {
	pr := c.P
	// Offer panics on procs <= 0
	if fn := c.MustFn(qOffer); fn != nil {
		fq := fn.QName()
		guard := false
		for _, st := range fn.Body.List {
			ifs, ok := st.(*ast.IfStmt)
			if !ok {
				continue
			}
			_, procsParam := paramNames(fn)
			if nonPositiveTest(ifs.Cond, procsParam) {
				for _, call := range callsIn(ifs.Body) {
					if !fn.Pkg.mayReturn(call) {
						guard = true
					}
				}
			}
			break // must be the first statement
		}
		c.Check(guard, fq+"|rejects-nonpositive-procs", pr.Pos(fn.Body.Pos()), "Offer no longer rejects procs <= 0 first: a zero-proc request is granted on a full machine")
	}
	// newMachineManager: machprocs >= 1
	if fn := c.MustFn("exec.newMachineManager"); fn != nil {
		fq := fn.QName()
		ok := false
		// the local that initialises the machprocs field of the manager
		mpVar := "machprocs"
		ast.Inspect(fn.Body, func(n ast.Node) bool {
			if kv, isKV := n.(*ast.KeyValueExpr); isKV && expr(kv.Key) == "machprocs" {
				mpVar = expr(kv.Value)
			}
			return true
		})
		inspectNoLit(fn.Body, func(n ast.Node) bool {
			ifs, isIf := n.(*ast.IfStmt)
			if !isIf {
				return true
			}
			if !nonPositiveTest(ifs.Cond, mpVar) {
				return true
			}
			for _, st := range ifs.Body.List {
				if a, isA := st.(*ast.AssignStmt); isA && expr(a.Lhs[0]) == mpVar && expr(a.Rhs[0]) == "1" {
					ok = true
				}
			}
			return true
		})
		c.Check(ok, fq+"|at-least-one-proc", pr.Pos(fn.Body.Pos()), "machprocs is no longer raised to at least 1: with a small max-load no task ever fits on any machine")
	}
	// the clamp before each Offer
	n := 0
	for _, fn := range pr.FuncsIn("exec") {
		if fn.Body == nil {
			continue
		}
		for _, call := range callsIn(fn.Body) {
			if _, ok := fn.Pkg.isCall(call, qOffer); !ok || len(call.Args) != 2 {
				continue
			}
			n++
			fq := fn.QName()
			fl := pr.Flow(fn)
			loc, ok := fl.LocOf(call)
			if !ok {
				c.Undecide("%s: Offer call not in CFG", fq)
				continue
			}
			pv := expr(call.Args[1])
			sel, _ := call.Fun.(*ast.SelectorExpr)
			mgr := ""
			if sel != nil {
				mgr = expr(sel.X)
			}
			// On every path to the call: either the branch `Exclusive() || procs > mgr.machprocs`
			// was false, or procs was assigned mgr.machprocs after it.
			bad := false
			var trail []string
			fl.Walk(fl.Entry(), "none", nil, Visitor{NoFacts: true,
				Enter: func(from, to *cfg.Block, x string, s *Step) (string, bool) {
					cond := fl.edgeCond(from)
					if cond == nil {
						return x, false
					}
					if c14isClampCond(fn, cond, pv, mgr) {
						if from.Succs[0] == to {
							return "need-assign", false
						}
						return "fits", false
					}
					return x, false
				},
				Node: func(nn ast.Node, x string, s *Step) (string, bool) {
					if s.Block == loc.B && s.Idx == loc.I {
						if x != "fits" && x != "clamped" {
							bad = true
							trail = s.Trail()
						}
						return x, true
					}
					if a, ok := nn.(*ast.AssignStmt); ok {
						for i, l := range a.Lhs {
							if expr(l) == pv {
								if x == "need-assign" && i < len(a.Rhs) && expr(a.Rhs[i]) == mgr+".machprocs" {
									return "clamped", false
								}
								return "none", false
							}
						}
					}
					return x, false
				}})
			c.Check(!bad, fq+"|procs-clamped-before-Offer", pr.Pos(call.Pos()),
				fmt.Sprintf("Offer(%s) is reachable without %s having been clamped to %s.machprocs for exclusive or oversized tasks: an exclusive task shares a machine, or an oversized request can never be granted", pv, pv, mgr), trail...)
		}
	}
	c.Floor("Offer call sites", n, 1)
}

func c14isClampCond(fn *Func, cond ast.Expr, pv, mgr string) bool {
	// Exclusive() || procs > mgr.machprocs  (either order)
	be, ok := ast.Unparen(cond).(*ast.BinaryExpr)
	if !ok || be.Op != token.LOR {
		return false
	}
	isExcl := func(e ast.Expr) bool {
		call, ok := ast.Unparen(e).(*ast.CallExpr)
		if !ok {
			return false
		}
		cn := fn.Pkg.CalleeName(call)
		return strings.HasSuffix(cn, ".Exclusive")
	}
	isOver := func(e ast.Expr) bool {
		b, ok := ast.Unparen(e).(*ast.BinaryExpr)
		if !ok {
			return false
		}
		return (b.Op == token.GTR && expr(b.X) == pv && expr(b.Y) == mgr+".machprocs") ||
			(b.Op == token.LSS && expr(b.Y) == pv && expr(b.X) == mgr+".machprocs")
	}
	return (isExcl(be.X) && isOver(be.Y)) || (isExcl(be.Y) && isOver(be.X))
}

// ---------------------------------------------------------------------------
// R7: local limiter

func c14r7(c *RC) {
	pr := c.P
	fn := c.MustFn("exec.(*localExecutor).Run")
	if fn == nil {
		return
	}
	fq := fn.QName()
	fl := pr.Flow(fn)
	var acq *ast.CallExpr
	for _, call := range callsIn(fn.Body) {
		if cn := fn.Pkg.CalleeName(call); cn == "github.com/grailbio/base/limiter.(*Limiter).Acquire" {
			acq = call
		}
	}
	if acq == nil || len(acq.Args) != 2 {
		c.Undecide("%s: no limiter.Acquire call", fq)
		return
	}
	nv := expr(acq.Args[1])
	// n is 1, or sess.p under Exclusive()
	okN := false
	exclSet := false
	inspectNoLit(fn.Body, func(n ast.Node) bool {
		switch a := n.(type) {
		case *ast.AssignStmt:
			if len(a.Lhs) == 1 && expr(a.Lhs[0]) == nv && a.Tok == token.DEFINE && expr(a.Rhs[0]) == "1" {
				okN = true
			}
		case *ast.IfStmt:
			if call, ok := ast.Unparen(a.Cond).(*ast.CallExpr); ok && strings.HasSuffix(fn.Pkg.CalleeName(call), ".Exclusive") {
				for _, st := range a.Body.List {
					if as, ok := st.(*ast.AssignStmt); ok && expr(as.Lhs[0]) == nv {
						if sel, ok := as.Rhs[0].(*ast.SelectorExpr); ok && pr.fieldQName(fn.Pkg.FieldOf(sel)) == "exec.Session.p" {
							exclSet = true
						}
					}
				}
			}
		}
		return true
	})
	c.Check(okN && exclSet, fq+"|exclusive-takes-all-procs", pr.Pos(acq.Pos()), "the local executor no longer acquires 1 proc per task and all of the session's procs for an exclusive task")
	// after a successful Acquire every exit passes exactly one Release(n)
	loc, ok := fl.LocOf(acq)
	if !ok {
		c.Undecide("%s: Acquire not in CFG", fq)
		return
	}
	isRel := func(call *ast.CallExpr) bool {
		return fn.Pkg.CalleeName(call) == "github.com/grailbio/base/limiter.(*Limiter).Release"
	}
	nEx := 0
	fl.Walk(Loc{loc.B, loc.I + 1}, "0/0", nil, Visitor{
		Enter: func(from, to *cfg.Block, x string, s *Step) (string, bool) {
			// the failure branch of Acquire holds nothing: stop there
			cond := fl.edgeCond(from)
			if cond != nil && from == loc.B {
				if _, ok := nonNilEdge(fl, from, to); ok {
					return x, true
				}
			}
			return x, false
		},
		Node: func(n ast.Node, x string, s *Step) (string, bool) {
			var cnt, def int
			fmt.Sscanf(x, "%d/%d", &cnt, &def)
			if d, ok := n.(*ast.DeferStmt); ok {
				for _, dc := range deferredCalls(d) {
					if isRel(dc) {
						def++
						c.Check(len(dc.Args) == 1 && expr(dc.Args[0]) == nv, fq+"|release-same-n", pr.Pos(dc.Pos()), "Release is called with "+expr(dc.Args[0])+" but Acquire took "+nv)
					}
				}
				return fmt.Sprintf("%d/%d", cnt, def), false
			}
			for _, call := range callsIn(n) {
				if isRel(call) {
					cnt++
					c.Check(len(call.Args) == 1 && expr(call.Args[0]) == nv, fq+"|release-same-n", pr.Pos(call.Pos()), "Release is called with "+expr(call.Args[0])+" but Acquire took "+nv)
				}
			}
			if a, ok := n.(*ast.AssignStmt); ok {
				for _, l := range a.Lhs {
					if expr(l) == nv {
						c.Fail(fq+"|n-reassigned", pr.Pos(a.Pos()), nv+" is reassigned between Acquire and Release")
					}
				}
			}
			if cnt > 2 {
				cnt = 2
			}
			return fmt.Sprintf("%d/%d", cnt, def), false
		},
		Exit: func(kind ExitKind, ret *ast.ReturnStmt, x string, s *Step) {
			if kind == ExitPanic {
				return
			}
			var cnt, def int
			fmt.Sscanf(x, "%d/%d", &cnt, &def)
			nEx++
			c.Check(cnt+def == 1, fq+"|exit:"+exitKey(fl, s, ret)+"|one-Release", fl.exitPos(s, ret),
				fmt.Sprintf("after a successful Acquire this exit passes %d Release calls (want exactly 1): local parallelism leaks or is over-released", cnt+def), s.Trail()...)
		},
	})
	if nEx == 0 {
		c.Undecide("%s: no exit after Acquire", fq)
	}
}

// queueRole classifies a heap operand by its static type: "req" for the
// schedule request queue, "mach" for the healthy-machine queue, "prob" for the
// probation queue.
func queueRole(pk *Pkg, e ast.Expr) string {
	tv := pk.Info.Types[e]
	if tv.Type == nil {
		return ""
	}
	switch namedQName(tv.Type) {
	case "exec.scheduleRequestQ":
		return "req"
	case "exec.machineQ":
		return "mach"
	case "exec.machineFailureQ":
		return "prob"
	}
	return ""
}

func recvOf(fn *Func) string {
	if fn.Decl != nil && fn.Decl.Recv != nil && len(fn.Decl.Recv.List) == 1 && len(fn.Decl.Recv.List[0].Names) == 1 {
		return fn.Decl.Recv.List[0].Names[0].Name
	}
	return ""
}
