package main

import (
	"fmt"
	"go/ast"
	"go/token"
	"strings"
)

func init() {
	registerProperty(&Property{
		ID:          "C02",
		Explanation: "Decides structural necessary conditions of the recovery path: (R1) every Executor.Run implementation leaves the task in a state >= OK on every normal exit (a task left WAITING/RUNNING parks every evaluator waiting on it forever); (R2) an error that is the outcome of running the task (the Worker.Run RPC, reading the dependencies, buffering the output) makes the task ERR only behind errors.Match(fatalErr, err) (or, on the driver, a cancelled context), and the complementary branch marks it LOST, so machine loss is retried and user errors are not; (R3) the reader the worker uses for dependencies revises error severity (a peer's death is not task-fatal) while the driver-side result reader does not, and reviseSeverity downgrades fatal errors unless they are marked task-fatal; (R4) a stopped machine marks itself lost and takes its task set in one critical section, then marks every task LOST, and Assign tests `lost` in the same critical section in which it inserts; (R5) a post-evaluation read re-evaluates the task and only on success reopens the remote stream at the requested offset, on the machine that now holds the task; (R6 = C15-R5) resumption at the delivered offset; (R7 = C07-R2) torn reads are caught by the per-batch checksum. Not decided: that rows after recovery equal the failure-free rows, absence of hangs across all RPC kill points, anything about bigmachine itself; machine-combiner sessions are excluded as in the statement.",
		Rules: []Rule{
			{ID: "C02-R1", Doc: "Run leaves the task in a terminal state", Run: c02r1},
			{ID: "C02-R2", Doc: "lost-not-fatal classification", Run: c02r2},
			{ID: "C02-R3", Doc: "dependency reads are severity-revised", Run: c02r3},
			{ID: "C02-R4", Doc: "machine stop marks tasks lost atomically", Run: c02r4},
			{ID: "C12-R4", Doc: "a task whose machine was lost is read through the re-evaluating reader, not reported as a missing resource: only a task without a location is an error (shared)", Run: c12r4},
			{ID: "C02-R6", Doc: "the failure of a dependency read is never wrapped fatal: the dependency is recomputed", Run: c02r6},
			{ID: "C19-R6", Doc: "no executor or evaluator function returns holding a lock it took: recovery never blocks on a leaked lock (shared)", Run: c19r6},
			{ID: "C02-R5", Doc: "scan re-evaluates before reopening", Run: c02r5},
			{ID: "C15-R5", Doc: "retry reader resumes at the delivered offset (shared)", Run: c15r5},
			{ID: "C07-R2", Doc: "checksum discipline (shared)", Run: c07r2},
			{ID: "C03-R4", Doc: "bounded consecutive loss; a success ends the run of losses (shared)", Run: c03r4},
			{ID: "C06-R7", Doc: "a failed combining attempt leaves nothing behind for its retry (shared)", Run: c06r7},
			{ID: "C14-R8", Doc: "capacity that failed to start is released from the pending count, so replacements are started (shared)", Run: c14r8},
			{ID: "C14-R4", Doc: "a stopped machine leaves whichever queue holds it, so it is replaced and never resurrected (shared)", Run: c14r4},
			{ID: "C10-R3", Doc: "a shuffle input that fails mid-merge is reported, never taken for its end (shared)", Run: c10r3},
			{ID: "C03-R5", Doc: "released dependents are re-examined, so a dependency lost in the meantime is recomputed (shared)", Run: c03r5},
			{ID: "C05-R9", Doc: "driver and worker agree on one location per dependency task (shared)", Run: c05r9},
		},
	})
}

func c02r1(c *RC) {
	pr := c.P
	iface := pr.lookupIface("exec", "Executor")
	if iface == nil {
		c.Undecide("Executor not found")
		return
	}
	impls := pr.implementers(iface, "Run")
	c.Floor("Executor.Run implementations", len(impls), 2)
	for _, fn := range impls {
		fq := fn.QName()
		fl := pr.Flow(fn)
		task := "task"
		if fn.Type.Params != nil && len(fn.Type.Params.List) == 1 && len(fn.Type.Params.List[0].Names) == 1 {
			task = fn.Type.Params.List[0].Names[0].Name
		}
		nex := 0
		fl.Walk(fl.Entry(), "", nil, Visitor{
			Node: func(n ast.Node, x string, s *Step) (string, bool) {
				if _, isDefer := n.(*ast.DeferStmt); isDefer {
					return x, false
				}
				inspectNoLit(n, func(m ast.Node) bool {
					switch a := m.(type) {
					case *ast.CallExpr:
						sel, ok := a.Fun.(*ast.SelectorExpr)
						if !ok || expr(sel.X) != task {
							return true
						}
						switch fn.Pkg.CalleeName(a) {
						case "exec.(*Task).Error", "exec.(*Task).Errorf":
							x = "terminal"
						case "exec.(*Task).Set":
							if len(a.Args) == 1 {
								switch expr(a.Args[0]) {
								case "TaskOk", "TaskErr", "TaskLost":
									x = "terminal"
								default:
									x = ""
								}
							}
						}
					case *ast.AssignStmt:
						for i, l := range a.Lhs {
							if sel, ok := ast.Unparen(l).(*ast.SelectorExpr); ok && expr(sel.X) == task && pr.fieldQName(fn.Pkg.FieldOf(sel)) == "exec.Task.state" && i < len(a.Rhs) {
								switch expr(a.Rhs[i]) {
								case "TaskOk", "TaskErr", "TaskLost":
									x = "terminal"
								default:
									x = ""
								}
							}
						}
					}
					return true
				})
				return x, false
			},
			Exit: func(kind ExitKind, ret *ast.ReturnStmt, x string, s *Step) {
				if kind == ExitPanic {
					return
				}
				nex++
				key := fq + "|exit:" + exitKey(fl, s, ret) + "|terminal-state"
				if x != "terminal" && fq == "exec.(*localExecutor).Run" && ret != nil {
					// exception: Acquire failed (process-wide background context is done):
					// the return sits inside `if err := l.limiter.Acquire(...); err != nil { ... }`
					inAcquire := false
					for _, p := range pathTo(fn.Body, ret) {
						if ifs, ok := p.(*ast.IfStmt); ok && ifs.Init != nil {
							for _, k := range callsIn(ifs.Init) {
								if fn.Pkg.CalleeName(k) == "github.com/grailbio/base/limiter.(*Limiter).Acquire" {
									inAcquire = true
								}
							}
						}
					}
					if inAcquire {
						c.Except(fq+"|exit after limiter.Acquire fails", "Acquire fails only when the process-wide background context is done; there is no evaluation left to park")
						return
					}
				}
				c.Check(x == "terminal", key, fl.exitPos(s, ret),
					"Run returns with the task not in a state >= OK (no Set(OK|ERR|LOST), Error(f) or terminal state write on this path): every evaluator waiting on the task waits forever", s.Trail()...)
			}})
		if nex == 0 {
			c.Undecide("%s: no exits", fq)
		}
	}
}

// isOutcomeCall: the call's error is the outcome of running the task.
func isOutcomeCall(pr *Prog, pk *Pkg, call *ast.CallExpr) string {
	cn := pk.CalleeName(call)
	switch cn {
	case "exec.(*localExecutor).depReaders":
		return "depReaders"
	case "exec.bufferOutput":
		return "bufferOutput"
	}
	if strings.HasSuffix(cn, "Machine).RetryCall") && len(call.Args) >= 2 && strings.Contains(nodeSrc(pr, call.Args[1]), `"Worker.Run"`) {
		return "Worker.Run"
	}
	return ""
}

func c02r2(c *RC) {
	pr := c.P
	iface := pr.lookupIface("exec", "Executor")
	if iface == nil {
		c.Undecide("Executor not found")
		return
	}
	n := 0
	for _, fn := range pr.implementers(iface, "Run") {
		fq := fn.QName()
		fl := pr.Flow(fn)
		// outcome error variables
		type outc struct {
			name string
			key  string
			what string
			loc  Loc
		}
		var outs []outc
		for _, b := range fl.G.Blocks {
			if !b.Live {
				continue
			}
			for i, nd := range b.Nodes {
				a, ok := nd.(*ast.AssignStmt)
				if !ok || len(a.Rhs) != 1 {
					continue
				}
				call, ok := ast.Unparen(a.Rhs[0]).(*ast.CallExpr)
				if !ok {
					continue
				}
				if w := isOutcomeCall(pr, fn.Pkg, call); w != "" {
					last := a.Lhs[len(a.Lhs)-1]
					outs = append(outs, outc{expr(last), fl.Key(last), w, Loc{b, i}})
				}
			}
		}
		for _, o := range outs {
			n++
			// from the assignment: every path on which the error is non-nil must reach
			// either (Match true -> ERR) or (Match false -> LOST); ERR without the guard is the violation
			var problems []string
			var trail []string
			fl.Walk(Loc{o.loc.B, o.loc.I + 1}, "", nil, Visitor{
				Enter: func(from, to *cfg2Block, x string, s *Step) (string, bool) {
					cond := fl.edgeCond(from)
					if cond == nil {
						return x, false
					}
					t := strings.ReplaceAll(nodeSrc0(pr, cond), " ", "")
					isMatch := strings.Contains(t, "errors.Match(fatalErr,"+o.name+")")
					isCtx := false
					ast.Inspect(cond, func(m ast.Node) bool {
						if be, ok := m.(*ast.BinaryExpr); ok && be.Op == token.NEQ {
							for _, side := range []ast.Expr{be.X, be.Y} {
								if k, ok := ast.Unparen(side).(*ast.CallExpr); ok && fn.Pkg.CalleeName(k) == "context.Context.Err" {
									isCtx = true
								}
							}
						}
						return true
					})
					if (isMatch || isCtx) && !strings.HasPrefix(t, "!") {
						if from.Succs[0] == to {
							return "fatal", false
						}
						if isMatch {
							return "notfatal", false
						}
					}
					return x, false
				},
				Node: func(nd ast.Node, x string, s *Step) (string, bool) {
					if s.Facts.IsNil(o.key) {
						return x, true // success path
					}
					// another outcome assignment to the same variable ends this site
					if a, ok := nd.(*ast.AssignStmt); ok {
						for _, l := range a.Lhs {
							if expr(l) == o.name {
								return x, true
							}
						}
					}
					stop := false
					inspectNoLit(nd, func(m ast.Node) bool {
						switch a := m.(type) {
						case *ast.CallExpr:
							cn := fn.Pkg.CalleeName(a)
							if (cn == "exec.(*Task).Error" || cn == "exec.(*Task).Errorf") && len(a.Args) >= 1 {
								if x != "fatal" {
									problems = append(problems, fmt.Sprintf("the task is put into ERR with the outcome of %s without the fatal-error test having been passed", o.what))
									trail = s.Trail()
								}
								stop = true
							}
							if cn == "exec.(*Task).Set" && len(a.Args) == 1 && expr(a.Args[0]) == "TaskLost" {
								if x == "fatal" {
									problems = append(problems, fmt.Sprintf("a fatal outcome of %s marks the task LOST: a persistent user error is retried until the loss bound", o.what))
									trail = s.Trail()
								}
								stop = true
							}
						case *ast.AssignStmt:
							for i, l := range a.Lhs {
								if sel, ok := ast.Unparen(l).(*ast.SelectorExpr); ok && pr.fieldQName(fn.Pkg.FieldOf(sel)) == "exec.Task.state" && i < len(a.Rhs) {
									switch expr(a.Rhs[i]) {
									case "TaskErr":
										if x != "fatal" {
											problems = append(problems, fmt.Sprintf("the task state is set to ERR for the outcome of %s without the fatal-error test having been passed", o.what))
											trail = s.Trail()
										}
										stop = true
									case "TaskLost":
										if x == "fatal" {
											problems = append(problems, fmt.Sprintf("a fatal outcome of %s sets the task LOST", o.what))
											trail = s.Trail()
										}
										stop = true
									case "TaskOk":
										if !s.Facts.IsNil(o.key) {
											problems = append(problems, fmt.Sprintf("the task is set OK on a path where the outcome of %s is not known to be nil", o.what))
											trail = s.Trail()
										}
										stop = true
									}
								}
							}
						}
						return true
					})
					return x, stop
				}})
			c.Check(len(problems) == 0, fmt.Sprintf("%s|outcome-of-%s-classified", fq, o.what), pr.Pos(o.loc.B.Nodes[o.loc.I].Pos()),
				strings.Join(uniq(problems), "; ")+" — machine loss would become a fatal error, or a user error an endless retry", trail...)
		}
	}
	c.Floor("task-outcome error sites in the executors", n, 3)
	// fatalErr is errors.E(errors.Fatal)
	pk := pr.Pkgs["exec"]
	okFatal := false
	if pk != nil {
		for _, f := range pk.Files {
			ast.Inspect(f, func(nd ast.Node) bool {
				if vs, ok := nd.(*ast.ValueSpec); ok {
					for i, nm := range vs.Names {
						if nm.Name == "fatalErr" && i < len(vs.Values) && strings.ReplaceAll(nodeSrc0(pr, vs.Values[i]), " ", "") == "errors.E(errors.Fatal)" {
							okFatal = true
						}
					}
				}
				return true
			})
		}
	}
	c.Check(okFatal, "exec.fatalErr|matches-fatal-severity", "exec/bigmachine.go", "fatalErr is no longer errors.E(errors.Fatal): the classification matches something else")
}

func nodeSrc0(pr *Prog, n ast.Node) string {
	if n == nil || !n.Pos().IsValid() || !n.End().IsValid() {
		if e, ok := n.(ast.Expr); ok {
			return expr(e)
		}
		return ""
	}
	ps, pe := pr.Fset.Position(n.Pos()), pr.Fset.Position(n.End())
	src := pr.Src[ps.Filename]
	if ps.Filename != "" && ps.Offset >= 0 && pe.Offset <= len(src) && ps.Offset <= pe.Offset {
		return string(src[ps.Offset:pe.Offset])
	}
	if e, ok := n.(ast.Expr); ok {
		return expr(e)
	}
	return ""
}

func c02r3(c *RC) {
	pr := c.P
	// composite literals of openerAtReader
	want := map[string]string{"exec.newMachineReader": "true", "exec.newEvalReader": "false"}
	n := 0
	for _, fn := range pr.FuncsIn("exec") {
		if fn.Body == nil {
			continue
		}
		ast.Inspect(fn.Body, func(nd ast.Node) bool {
			lit, ok := nd.(*ast.CompositeLit)
			if !ok {
				return true
			}
			tv := fn.Pkg.Info.Types[lit]
			if tv.Type == nil || typeString(tv.Type) != "exec.openerAtReader" {
				return true
			}
			n++
			rs := "false"
			for _, e := range lit.Elts {
				if kv, ok := e.(*ast.KeyValueExpr); ok && expr(kv.Key) == "ReviseSeverity" {
					rs = expr(kv.Value)
				}
			}
			w, known := want[fn.QName()]
			if !known {
				c.Fail(fn.QName()+"|openerAtReader-literal", pr.Pos(lit.Pos()), "an openerAtReader is built in a function whose role (worker dependency read vs driver result read) is not known to the checker")
				return true
			}
			c.Check(rs == w, fn.QName()+"|ReviseSeverity="+w, pr.Pos(lit.Pos()),
				fmt.Sprintf("%s builds its reader with ReviseSeverity=%s (want %s): with false on the worker a dead peer's (fatal) read error is reported as task-fatal and recomputation never happens; with true on the driver fatal errors of the final scan are hidden", fn.Name, rs, w))
			return true
		})
	}
	c.Floor("openerAtReader literals", n, 2)
	// worker.Run uses newMachineReader for remote dependencies; the driver's Reader uses newEvalReader
	uses := func(q, callee string) bool {
		fn := pr.Fn(q)
		if fn == nil {
			return false
		}
		for _, k := range callsIn(fn.Body) {
			if fn.Pkg.CalleeName(k) == callee {
				return true
			}
		}
		return false
	}
	c.Check(uses("exec.(*worker).Run", "exec.newMachineReader") && !uses("exec.(*worker).Run", "exec.newEvalReader"), "exec.(*worker).Run|dependencies-read-with-severity-revision", "exec/bigmachine.go", "the worker no longer reads remote dependencies through newMachineReader")
	c.Check(uses("exec.(*bigmachineExecutor).Reader", "exec.newEvalReader"), "exec.(*bigmachineExecutor).Reader|results-read-with-re-evaluation", "exec/bigmachine.go", "the driver no longer reads results through newEvalReader (no recovery while scanning)")
	// openerAtReader.Read applies reviseSeverity iff the flag is set
	if rd := c.MustFn("exec.(*openerAtReader).Read"); rd != nil {
		ok := false
		ast.Inspect(rd.Body, func(nd ast.Node) bool {
			if ifs, isIf := nd.(*ast.IfStmt); isIf && strings.HasSuffix(expr(ifs.Cond), ".ReviseSeverity") {
				for _, st := range ifs.Body.List {
					if a, isA := st.(*ast.AssignStmt); isA && len(a.Rhs) == 1 {
						if k, isC := a.Rhs[0].(*ast.CallExpr); isC && rd.Pkg.CalleeName(k) == "exec.reviseSeverity" && len(k.Args) == 1 && expr(k.Args[0]) == expr(a.Lhs[0]) {
							ok = true
						}
					}
				}
			}
			return true
		})
		c.Check(ok, rd.QName()+"|revises-when-flag-set", pr.Pos(rd.Body.Pos()), "openerAtReader.Read no longer applies reviseSeverity to its error when ReviseSeverity is set")
	}
	// reviseSeverity: maybeTaskFatalErr unwraps (stays fatal); other fatal *errors.Error downgraded
	if rv := c.MustFn("exec.reviseSeverity"); rv != nil {
		// (1) an assertion to maybeTaskFatalErr whose success returns the wrapped error unchanged;
		// (2) afterwards: under `<e>.Severity == errors.Fatal` the severity is set to errors.Unknown
		unwrapPos, downPos := token.NoPos, token.NoPos
		ast.Inspect(rv.Body, func(n ast.Node) bool {
			ifs, ok := n.(*ast.IfStmt)
			if !ok {
				return true
			}
			isUnwrap := false
			if ifs.Init != nil {
				ast.Inspect(ifs.Init, func(m ast.Node) bool {
					if ta, ok := m.(*ast.TypeAssertExpr); ok && ta.Type != nil && expr(ta.Type) == "maybeTaskFatalErr" {
						isUnwrap = true
					}
					return true
				})
			}
			if isUnwrap {
				for _, st := range ifs.Body.List {
					if r, ok := st.(*ast.ReturnStmt); ok && len(r.Results) == 1 && strings.HasSuffix(expr(r.Results[0]), ".error") {
						unwrapPos = ifs.Pos()
					}
				}
			}
			sevFatal := false
			ast.Inspect(ifs.Cond, func(m ast.Node) bool {
				if be, ok := m.(*ast.BinaryExpr); ok && be.Op == token.EQL {
					l, r := expr(be.X), expr(be.Y)
					if strings.HasSuffix(l, ".Severity") && r == "errors.Fatal" || strings.HasSuffix(r, ".Severity") && l == "errors.Fatal" {
						sevFatal = true
					}
				}
				return true
			})
			// the whole condition must be true when the severity is Fatal
			if v, known := evalCond(ifs.Cond, func(e ast.Expr) (bool, bool) {
				if be, ok := ast.Unparen(e).(*ast.BinaryExpr); ok && (be.Op == token.EQL || be.Op == token.NEQ) {
					l, r := expr(be.X), expr(be.Y)
					if strings.HasSuffix(l, ".Severity") && r == "errors.Fatal" || strings.HasSuffix(r, ".Severity") && l == "errors.Fatal" {
						return be.Op == token.EQL, true
					}
				}
				return true, true // other conjuncts (type assertion ok, non-nil) assumed to hold
			}); known && !v {
				sevFatal = false
			}
			if sevFatal {
				for _, st := range ifs.Body.List {
					if a, ok := st.(*ast.AssignStmt); ok && strings.HasSuffix(expr(a.Lhs[0]), ".Severity") && expr(a.Rhs[0]) == "errors.Unknown" {
						downPos = ifs.Pos()
					}
				}
			}
			return true
		})
		c.Check(unwrapPos.IsValid() && downPos.IsValid() && unwrapPos < downPos, rv.QName()+"|downgrades-unless-task-fatal", pr.Pos(rv.Body.Pos()), "reviseSeverity no longer first unwraps errors marked task-fatal and then downgrades every other fatal error to a retryable one")
	}
	// worker.Run wraps errors of user code as maybeTaskFatalErr and applies reviseSeverity in its epilogue
	if w := pr.Fn("exec.(*worker).Run"); w != nil {
		cnt := strings.Count(nodeSrc0(pr, w.Body), "maybeTaskFatalErr{")
		c.Check(cnt >= 6, w.QName()+"|user-code-errors-marked-task-fatal", pr.Pos(w.Body.Pos()), fmt.Sprintf("only %d error returns of worker.Run are marked maybeTaskFatalErr (errors from evaluating the task's own reader must be, so that reviseSeverity keeps them fatal)", cnt))
	}
}

func c02r4(c *RC) {
	pr := c.P
	gofn := c.MustFn("exec.(*sliceMachine).Go")
	if gofn != nil {
		fq := gofn.QName()
		// after the monitoring loop: Lock; lost = true; tasks := s.tasks; s.tasks = nil; Unlock; for task := range tasks { Set(TaskLost) }
		var seq []string
		var loop *ast.ForStmt
		for _, st := range gofn.Body.List {
			if l, ok := st.(*ast.LabeledStmt); ok {
				if f, ok := l.Stmt.(*ast.ForStmt); ok {
					loop = f
				}
			}
			if f, ok := st.(*ast.ForStmt); ok {
				loop = f
			}
		}
		if loop == nil {
			c.Fail(fq+"|monitoring-loop", pr.Pos(gofn.Body.Pos()), "no monitoring loop")
		} else {
			for _, st := range gofn.Body.List {
				if st.Pos() < loop.End() {
					continue
				}
				switch a := st.(type) {
				case *ast.ExprStmt:
					t := strings.ReplaceAll(expr(a.X), " ", "")
					if strings.HasSuffix(t, ".mu.Lock()") {
						seq = append(seq, "lock")
					}
					if strings.HasSuffix(t, ".mu.Unlock()") {
						seq = append(seq, "unlock")
					}
				case *ast.AssignStmt:
					l, r := expr(a.Lhs[0]), expr(a.Rhs[0])
					switch {
					case strings.HasSuffix(l, ".lost") && r == "true":
						seq = append(seq, "lost=true")
					case strings.HasSuffix(r, ".tasks"):
						seq = append(seq, "take")
					case strings.HasSuffix(l, ".tasks") && r == "nil":
						seq = append(seq, "clear")
					}
				case *ast.RangeStmt:
					for _, k := range callsIn(a.Body) {
						if gofn.Pkg.CalleeName(k) == "exec.(*Task).Set" && len(k.Args) == 1 && expr(k.Args[0]) == "TaskLost" {
							seq = append(seq, "mark-all-lost")
						}
					}
				}
			}
			got := strings.Join(seq, ",")
			okSeq := strings.HasPrefix(got, "lock,") && strings.Contains(got, "lost=true") && strings.Contains(got, "take") && strings.Index(got, "unlock") > strings.Index(got, "take") && strings.Index(got, "unlock") > strings.Index(got, "lost=true") && strings.HasSuffix(got, "mark-all-lost")
			c.Check(okSeq, fq+"|stop-marks-lost-atomically", pr.Pos(loop.End()),
				"after the monitoring loop the machine must, under its mutex, set lost and take its task set, and then mark every taken task LOST (got: "+got+"): a task assigned during the stop would never be marked lost and its consumers would read from a dead machine forever")
		}
	}
	if as := c.MustFn("exec.(*sliceMachine).Assign"); as != nil {
		fq := as.QName()
		locked := false
		if len(as.Body.List) >= 2 {
			if es, ok := as.Body.List[0].(*ast.ExprStmt); ok && strings.HasSuffix(strings.ReplaceAll(expr(es.X), " ", ""), ".mu.Lock()") {
				if d, ok := as.Body.List[1].(*ast.DeferStmt); ok && strings.HasSuffix(expr(d.Call.Fun), ".mu.Unlock") {
					locked = true
				}
			}
		}
		c.Check(locked, fq+"|whole-body-under-mu", pr.Pos(as.Body.Pos()), "Assign no longer holds the machine mutex for its whole body")
		// if s.lost { Set(TaskLost) } else { insert }
		okBranch := false
		ast.Inspect(as.Body, func(nd ast.Node) bool {
			if ifs, isIf := nd.(*ast.IfStmt); isIf && strings.HasSuffix(expr(ifs.Cond), ".lost") {
				setLost, ins := false, false
				for _, k := range callsIn(ifs.Body) {
					if as.Pkg.CalleeName(k) == "exec.(*Task).Set" && len(k.Args) == 1 && expr(k.Args[0]) == "TaskLost" {
						setLost = true
					}
				}
				if el, ok := ifs.Else.(*ast.BlockStmt); ok {
					for _, st := range el.List {
						if a, ok := st.(*ast.AssignStmt); ok && strings.Contains(expr(a.Lhs[0]), ".tasks[") {
							ins = true
						}
					}
				}
				okBranch = setLost && ins
			}
			return true
		})
		c.Check(okBranch, fq+"|lost-tested-where-inserted", pr.Pos(as.Body.Pos()), "Assign no longer marks the task LOST when the machine is already lost, inserting it only otherwise, in one critical section")
	}
	// Run assigns the task to the machine after marking it OK (so that a later stop marks it lost)
	if run := pr.Fn("exec.(*bigmachineExecutor).Run"); run != nil {
		ok := false
		for _, k := range callsIn(run.Body) {
			if run.Pkg.CalleeName(k) == "exec.(*sliceMachine).Assign" {
				ok = true
			}
		}
		c.Check(ok, run.QName()+"|completed-task-assigned-to-machine", pr.Pos(run.Body.Pos()), "a completed task is no longer assigned to its machine: when the machine dies nothing marks the task lost, and consumers retry reading from it forever")
	}
	// Assign is the last word on the task's state: Assign itself marks the task
	// LOST when the machine has already stopped, so the task must have been made
	// OK before it, and nothing may write its state after it.
	nAssign := 0
	for _, fn := range pr.FuncsIn("exec") {
		if fn.Body == nil || fn.QName() == "exec.(*sliceMachine).Assign" {
			continue
		}
		for _, k := range callsIn(fn.Body) {
			if fn.Pkg.CalleeName(k) != "exec.(*sliceMachine).Assign" || len(k.Args) != 1 {
				continue
			}
			nAssign++
			task := expr(k.Args[0])
			fl := pr.Flow(fn)
			loc, okLoc := fl.LocOf(k)
			if !okLoc {
				c.Undecide("%s: Assign call not in the flow graph", fn.QName())
				continue
			}
			isStateWrite := func(n ast.Node, onlyOK bool) bool {
				return nodeHas(n, func(m ast.Node) bool {
					call, isCall := m.(*ast.CallExpr)
					if !isCall {
						return false
					}
					sel, isSel := call.Fun.(*ast.SelectorExpr)
					if !isSel || expr(sel.X) != task {
						return false
					}
					switch fn.Pkg.CalleeName(call) {
					case "exec.(*Task).Set":
						return !onlyOK || (len(call.Args) == 1 && expr(call.Args[0]) == "TaskOk")
					case "exec.(*Task).Error", "exec.(*Task).Errorf":
						return !onlyOK
					}
					return false
				})
			}
			dom, _ := fl.Dominated(loc, func(n ast.Node, st *Step) bool { return isStateWrite(n, true) })
			c.Check(dom, fn.QName()+"|task-made-OK-before-Assign", pr.Pos(k.Pos()),
				"the task is handed to its machine's task set on a path where it has not been marked OK yet")
			// ... and its location is recorded before it becomes OK: from that
			// moment scans, dependents and Discard look the location up
			for _, k2 := range callsIn(fn.Body) {
				if fn.Pkg.CalleeName(k2) != "exec.(*Task).Set" || len(k2.Args) != 1 || expr(k2.Args[0]) != "TaskOk" {
					continue
				}
				if sel, ok := k2.Fun.(*ast.SelectorExpr); !ok || expr(sel.X) != task {
					continue
				}
				l2, ok2 := fl.LocOf(k2)
				if !ok2 {
					continue
				}
				located, tr := fl.Dominated(l2, func(n ast.Node, st *Step) bool {
					return nodeHas(n, func(m ast.Node) bool {
						call, isCall := m.(*ast.CallExpr)
						return isCall && fn.Pkg.CalleeName(call) == "exec.(*bigmachineExecutor).setLocation" && len(call.Args) == 2 && expr(call.Args[0]) == task
					})
				})
				c.Check(located, fn.QName()+"|location-recorded-before-OK", pr.Pos(k2.Pos()),
					"the task becomes OK before the machine that holds its output is recorded: a scan, a dependent task or a Discard that acts on the task in that window finds no location (\"resource does not exist\", a fatal \"has no location\", or a task parked in RUNNING)", tr...)
			}
			late := ""
			var trail []string
			fl.Walk(Loc{loc.B, loc.I + 1}, "", nil, Visitor{NoFacts: true,
				Node: func(n ast.Node, x string, st *Step) (string, bool) {
					if isStateWrite(n, false) {
						late = pr.Pos(n.Pos())
						trail = st.Trail()
						return x, true
					}
					return x, false
				}})
			c.Check(late == "", fn.QName()+"|no-state-write-after-Assign", pr.Pos(k.Pos()),
				"the task's state is written (at "+late+") after the task was assigned to its machine: Assign marks the task LOST when the machine has stopped in the meantime, and the later write overwrites that mark — the task stays OK on a dead machine, nothing recomputes it, and its consumers are lost until they give up", trail...)
		}
	}
	c.Floor("Assign call sites", nAssign, 1)
	// startMachines launches sm.Go for each machine
	if sm := pr.Fn("exec.startMachines"); sm != nil {
		ok := false
		var walk func(f *Func)
		walk = func(f *Func) {
			ast.Inspect(f.Body, func(nd ast.Node) bool {
				if g, isGo := nd.(*ast.GoStmt); isGo && f.Pkg.CalleeName(g.Call) == "exec.(*sliceMachine).Go" {
					ok = true
				}
				return true
			})
		}
		walk(sm)
		c.Check(ok, sm.QName()+"|monitors-each-machine", pr.Pos(sm.Body.Pos()), "started machines are no longer monitored by (*sliceMachine).Go: a stopped machine's tasks are never marked lost")
	}
}

func c02r5(c *RC) {
	pr := c.P
	fn := c.MustFn("exec.(*evalOpenerAt).OpenAt")
	if fn == nil {
		return
	}
	fq := fn.QName()
	fl := pr.Flow(fn)
	var read, eval *ast.CallExpr
	evalErr := ""
	for _, k := range callsIn(fn.Body) {
		cn := fn.Pkg.CalleeName(k)
		if strings.HasSuffix(cn, "Machine).RetryCall") && len(k.Args) >= 2 && strings.Contains(nodeSrc0(pr, k.Args[1]), `"Worker.Read"`) {
			read = k
		}
		if cn == "exec.Eval" {
			eval = k
		}
	}
	if read == nil || eval == nil {
		c.Fail(fq+"|re-evaluates-then-reads", pr.Pos(fn.Body.Pos()), "OpenAt no longer evaluates the task and then issues Worker.Read")
		return
	}
	inspectNoLit(fn.Body, func(nd ast.Node) bool {
		if a, ok := nd.(*ast.AssignStmt); ok && len(a.Rhs) == 1 && ast.Unparen(a.Rhs[0]) == ast.Expr(eval) {
			evalErr = fl.Key(a.Lhs[0])
		}
		return true
	})
	rl, _ := fl.LocOf(read)
	okDom := true
	var trail []string
	fl.Walk(fl.Entry(), "", nil, Visitor{
		Node: func(nd ast.Node, x string, s *Step) (string, bool) {
			if s.Block == rl.B && s.Idx == rl.I {
				if x != "evaluated" {
					okDom = false
					trail = s.Trail()
				}
				return x, true
			}
			if nodeHas(nd, func(m ast.Node) bool { return m == ast.Node(eval) }) {
				return "called", false
			}
			return x, false
		},
		Enter: func(from, to *cfg2Block, x string, s *Step) (string, bool) {
			if x == "called" && evalErr != "" && s.Facts.IsNil(evalErr) {
				return "evaluated", false
			}
			return x, false
		}})
	c.Check(okDom && evalErr != "", fq+"|read-only-after-successful-Eval", pr.Pos(read.Pos()), "Worker.Read is issued on a path where Eval of the task did not return nil: after the machine holding a result died, the scan retries against it (or reads stale data) instead of recomputing", trail...)
	// Eval is called for exactly this task with the executor, and the machine is re-resolved after it
	okArgs := len(eval.Args) == 4 && strings.HasSuffix(expr(eval.Args[1]), ".Executor") && strings.Contains(nodeSrc0(pr, eval.Args[2]), ".Task}")
	c.Check(okArgs, fq+"|evaluates-this-task", pr.Pos(eval.Pos()), "OpenAt evaluates something other than its own task with its executor")
	reloc := false
	var relocStmt *ast.AssignStmt
	ast.Inspect(fn.Body, func(nd ast.Node) bool {
		if a, ok := nd.(*ast.AssignStmt); ok && a.Pos() > eval.End() && a.Pos() < read.Pos() && strings.HasSuffix(expr(a.Lhs[0]), ".machine") && strings.Contains(expr(a.Rhs[0]), ".location(") {
			relocStmt = a
		}
		return true
	})
	if relocStmt != nil {
		// it must run on every path between the evaluation and the read
		evalLoc, _ := fl.LocOf(eval)
		okAll := true
		fl.Walk(Loc{evalLoc.B, evalLoc.I + 1}, "", nil, Visitor{NoFacts: true,
			Node: func(nd ast.Node, x string, s *Step) (string, bool) {
				if nd == ast.Node(relocStmt) {
					return "r", false
				}
				if s.Block == rl.B && s.Idx == rl.I {
					if x != "r" {
						okAll = false
					}
					return x, true
				}
				return x, false
			}})
		reloc = okAll
	}
	c.Check(reloc, fq+"|machine-resolved-after-Eval", pr.Pos(read.Pos()), "the machine to read from is not looked up again after the re-evaluation: the read goes to the machine that lost the task")
	// the offset is passed through
	okOff := false
	if len(read.Args) >= 3 {
		_, offP := paramNames(fn)
		okOff = c02mentions(read.Args[2], offP)
	}
	c.Check(okOff, fq+"|reopens-at-requested-offset", pr.Pos(read.Pos()), "the reopened read does not start at the requested offset")
	// same for the worker-side opener
	if m := c.MustFn("exec.machineTaskPartition.OpenAt"); m != nil {
		ok := false
		for _, k := range callsIn(m.Body) {
			if strings.HasSuffix(m.Pkg.CalleeName(k), "Machine).RetryCall") && len(k.Args) >= 3 {
				_, offP := paramNames(m)
				if c02mentions(k.Args[2], offP) {
					ok = true
				}
			}
		}
		c.Check(ok, m.QName()+"|reopens-at-requested-offset", pr.Pos(m.Body.Pos()), "the worker-side reopen does not pass the requested offset")
	}
	// worker.Read opens the store at the requested offset
	if w := c.MustFn("exec.(*worker).Read"); w != nil {
		ok := false
		for _, k := range callsIn(w.Body) {
			if w.Pkg.CalleeName(k) == "exec.Store.Open" && len(k.Args) == 4 && strings.HasSuffix(expr(k.Args[1]), ".Name") && strings.HasSuffix(expr(k.Args[2]), ".Partition") && strings.HasSuffix(expr(k.Args[3]), ".Offset") {
				ok = true
			}
		}
		c.Check(ok, w.QName()+"|serves-requested-partition-and-offset", pr.Pos(w.Body.Pos()), "Worker.Read no longer opens exactly the requested task, partition and offset")
	}
}

var _ = token.ADD

// c02mentions: the composite literal (or expression) e uses identifier name as
// one of its element values.
func c02mentions(e ast.Expr, name string) bool {
	found := false
	ast.Inspect(e, func(n ast.Node) bool {
		if id, ok := n.(*ast.Ident); ok && id.Name == name {
			found = true
		}
		return true
	})
	return found
}
