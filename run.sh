#!/bin/sh
# usage: run.sh <property-id> quick|thorough
# Static check of one property against /repo's current working tree.
set -u
here=$(cd "$(dirname "$0")" && pwd)
id=$1
tier=${2:-quick}
export GOFLAGS=-mod=mod GOPROXY=off GOSUMDB=off GOTOOLCHAIN=local GOWORK=off
unset GOARCH GOOS
bin="$here/bin/bsvet"
if [ ! -x "$bin" ] || [ -n "$(find "$here/checker" -name '*.go' -newer "$bin" 2>/dev/null | head -1)" ]; then
  (cd "$here/checker" && go build -o "$bin" .) || { echo "bsvet: build failed" >&2; exit 2; }
fi
exec "$bin" -root "${BSVET_ROOT:-/repo}" -tier "$tier" -evidence "$here/evidence" -known "$here/known_findings.json" -mutants "$here/mutants" "$id"
