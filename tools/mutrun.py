#!/usr/bin/env python3
"""Development aid: run the repository's own (dormant) tests against the mutants that the static
checks did not notice, to separate "any test run would catch this at once" from "passes the
existing tests and is not noticed by the checks" (the interesting ones, triaged by hand).

usage: mutrun.py --survivors f2.txt --mutants mutants.jsonl --out testrun.jsonl --workers 8 [--phase nonroot|root]
Works in scratch worktrees /tmp/mw<i> at the commit the mutants were generated from (--commit).
"""
import argparse, json, os, subprocess, sys, threading, queue, time
ap=argparse.ArgumentParser()
ap.add_argument('--survivors',required=True); ap.add_argument('--mutants',required=True); ap.add_argument('--out',required=True)
ap.add_argument('--workers',type=int,default=8); ap.add_argument('--phase',default='nonroot'); ap.add_argument('--commit',required=True)
a=ap.parse_args()
env=dict(os.environ,GOFLAGS='-mod=mod',GOPROXY='off',GOSUMDB='off',GOTOOLCHAIN='local')
muts={}
for l in open(a.mutants):
    m=json.loads(l); muts[(m['file'],m['line'],m['what'])]=m
todo=[]
for l in open(a.survivors):
    l=l.rstrip('\n')
    loc,rest=l.split(' ',1)
    file,line=loc.rsplit(':',1)
    fn,what=rest.split(' | ',1)
    m=muts.get((file,int(line),what))
    if m is None: continue
    isroot='/' not in file
    if (a.phase=='root')!=isroot: continue
    todo.append(m)
done=set()
if os.path.exists(a.out):
    for l in open(a.out):
        r=json.loads(l); done.add((r['file'],r['line'],r['what']))
todo=[m for m in todo if (m['file'],m['line'],m['what']) not in done]
def pkgs(file):
    d=os.path.dirname(file)
    return {'exec':'./exec','frame':'./frame ./sliceio ./sortio','sliceio':'./sliceio ./sortio ./internal/slicecache','sortio':'./sortio',
            'internal/zero':'./internal/zero ./frame','internal/slicecache':'./internal/slicecache','metrics':'./metrics',
            'typecheck':'./typecheck','slicefunc':'./slicefunc ./typecheck','slicetype':'./slicetype ./typecheck','':'.'}.get(d,'./'+d)
# cheap first
todo.sort(key=lambda m:(m['file'].startswith('exec/'), m['file'], m['start']))
q=queue.Queue()
for m in todo: q.put(m)
lock=threading.Lock()
print(len(todo),'mutants to run',flush=True)
def worker(i):
    wt=f'/tmp/mw{i}'
    subprocess.run(f'git -C /repo worktree remove --force {wt}',shell=True,capture_output=True)
    r=subprocess.run(f'git -C /repo worktree add --detach {wt} {a.commit} && sh /tmp/shim/apply.sh {wt}',shell=True,capture_output=True,text=True,env=env)
    assert r.returncode==0,r.stdout+r.stderr
    while True:
        try: m=q.get_nowait()
        except queue.Empty: break
        p=os.path.join(wt,m['file'])
        src=open(p,'rb').read()
        ns=src[:m['start']]+m['repl'].encode()+src[m['end']:]
        open(p,'wb').write(ns)
        t0=time.time()
        to='20m' if pkgs(m['file'])=='.' else '8m'
        try:
            r=subprocess.run(f"go test -vet=off -count=1 -timeout {to} {pkgs(m['file'])}",shell=True,cwd=wt,env=env,capture_output=True,text=True,errors="replace",timeout=1500)
            rc=r.returncode; tail=(r.stdout+r.stderr)[-400:]
        except subprocess.TimeoutExpired:
            rc=-1; tail='timeout'
        open(p,'wb').write(src)
        rec=dict(file=m['file'],line=m['line'],fn=m['fn'],what=m['what'],tests_pass=(rc==0),secs=round(time.time()-t0),tail=tail if rc!=0 else '')
        with lock:
            open(a.out,'a').write(json.dumps(rec)+'\n')
    subprocess.run(f'git -C /repo worktree remove --force {wt}',shell=True,capture_output=True)
ts=[threading.Thread(target=worker,args=(i,)) for i in range(a.workers)]
for t in ts: t.start()
for t in ts: t.join()
print('done',flush=True)
