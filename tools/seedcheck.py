#!/usr/bin/env python3
"""Confirm a sub-agent's seeded defect and record how the checks react.

usage: seedcheck.py --src <dir with patch.diff, demo_test.go, README.txt> --id C11-1 --prop C11
                    --wt <scratch worktree> --pkgs "./frame ./internal/zero" --demo-dir frame [--run TestName]

Steps (all outside /repo except the last):
 1. worktree clean -> demo passes, package tests pass
 2. apply patch in the worktree -> builds, package tests still pass, demo FAILS
 3. revert
 4. git -C /repo apply patch; ./run.sh <prop> quick (and any --also props); git -C /repo checkout -- .
 5. write /verif/seeded/<id>/{patch.diff,demo_test.go,README.txt,meta.json}
"""
import argparse, json, os, shutil, subprocess, sys, re
ap=argparse.ArgumentParser()
ap.add_argument('--src',required=True); ap.add_argument('--id',required=True); ap.add_argument('--prop',required=True)
ap.add_argument('--wt',required=True); ap.add_argument('--pkgs',required=True); ap.add_argument('--demo-dir',required=True)
ap.add_argument('--run',default=''); ap.add_argument('--also',default=''); ap.add_argument('--nodemo',action='store_true')
ap.add_argument('--shim',action='store_true',help='worktree uses the dependency shim (go.mod modified); no -lang gcflags')
ap.add_argument('--demo-timeout',default='10m'); ap.add_argument('--testflags',default='',help='extra go test flags for the demonstration (e.g. -race)')
a=ap.parse_args()
env=dict(os.environ,GOFLAGS='-mod=mod',GOPROXY='off',GOSUMDB='off',GOTOOLCHAIN='local')
GC="-gcflags=github.com/grailbio/bigslice/...=-lang=go1.17"
if a.shim:
    GC="-gcflags="
EXCL=" -- . ':!go.mod' ':!go.sum'" if a.shim else " -- ."
def sh(cmd,cwd=None,timeout=3600):
    p=subprocess.run(cmd,shell=True,cwd=cwd,env=env,stdout=subprocess.PIPE,stderr=subprocess.STDOUT,text=True,timeout=timeout)
    return p.returncode,p.stdout
ran=[]
def step(name,cmd,cwd):
    rc,out=sh(cmd,cwd); ran.append({"step":name,"cmd":cmd,"exit":rc,"tail":out[-600:]}); return rc,out
wt=a.wt
rc,out=sh("git status --porcelain --untracked-files=no"+EXCL,wt)
assert out.strip()=="",("worktree not clean",out)
demo_dst=os.path.join(wt,a.demo_dir,"zz_seed_demo_test.go")
meta={"id":a.id,"property":a.prop,"confirmed":{}}
patch=os.path.join(a.src,"patch.diff")
runflag=("-run '%s'"%a.run) if a.run else ""
if not a.nodemo:
    shutil.copy(os.path.join(a.src,"demo_test.go"),demo_dst)
    DGQ=("'"+GC+"'") if not a.testflags else ''
    rc,_=step("demo on unchanged worktree",f"go test -vet=off -count=1 -timeout {a.demo_timeout} {a.testflags} {DGQ} {runflag} ./{a.demo_dir}",wt)
    meta["confirmed"]["demo_passes_without_change"]=(rc==0)
    os.remove(demo_dst)
rc,_=step("apply patch in worktree",f"git apply {patch}",wt)
assert rc==0,"patch does not apply"
rc,_=step("build with change",f"go build '{GC}' {a.pkgs}",wt)
meta["confirmed"]["compiles_with_change"]=(rc==0)
rc,_=step("existing package tests with change",f"go test -vet=off -count=1 -timeout 20m '{GC}' {a.pkgs}",wt)
meta["confirmed"]["existing_tests_pass_with_change"]=(rc==0)
if not a.nodemo:
    shutil.copy(os.path.join(a.src,"demo_test.go"),demo_dst)
    rc,_=step("demo with change",f"go test -vet=off -count=1 -timeout {a.demo_timeout} {a.testflags} {DGQ} {runflag} ./{a.demo_dir}",wt)
    meta["confirmed"]["demo_fails_with_change"]=(rc!=0)
    os.remove(demo_dst)
sh("git checkout"+EXCL,wt)
# against /repo (serialised: several seedchecks may run at once, one per scratch worktree)
import fcntl
_lock=open("/tmp/seedcheck.repo.lock","w"); fcntl.flock(_lock,fcntl.LOCK_EX)
rc,out=sh("git status --porcelain --untracked-files=no","/repo"); assert out.strip()=="",("/repo dirty",out)
rc,_=step("apply to /repo",f"git -C /repo apply {patch}",None)
assert rc==0
det={}
try:
    for prop in [a.prop]+[p for p in a.also.split(',') if p]:
        rc,out=sh(f"./run.sh {prop} quick","/verif")
        viol=[l for l in out.splitlines() if l.startswith("VIOLATION")]
        rules=sorted(set(re.findall(r"\[violation\] (C\d+-R\d+)",out)))
        und=[l.strip() for l in out.splitlines() if l.strip().startswith("undecided:")]
        det[prop]={"exit":rc,"violation_lines":len(viol),"rules":rules,"undecided":und[:3]}
finally:
    sh("git -C /repo checkout -- .")
rc,out=sh("git status --porcelain --untracked-files=no","/repo"); assert out.strip()=="",("/repo dirty after",out)
meta["checks"]=det
meta["detected"]=any(d["exit"]==1 for d in det.values())
meta["ran"]=ran
readme=open(os.path.join(a.src,"README.txt")).read() if os.path.exists(os.path.join(a.src,"README.txt")) else ""
meta["needs_to_manifest"]=readme[:1500]
dst=os.path.join("/verif/seeded",a.id); os.makedirs(dst,exist_ok=True)
for f in ("patch.diff","demo_test.go","README.txt"):
    if os.path.exists(os.path.join(a.src,f)): shutil.copy(os.path.join(a.src,f),dst)
json.dump(meta,open(os.path.join(dst,"meta.json"),"w"),indent=1)
# restore evidence files to the unchanged-tree state
for prop in [a.prop]+[p for p in a.also.split(',') if p]:
    sh(f"./run.sh {prop} quick","/verif")
fcntl.flock(_lock,fcntl.LOCK_UN)
print(a.id,"confirmed:",meta["confirmed"],"detected:",meta["detected"],{k:v["rules"] or v["undecided"] for k,v in det.items()})
