#!/bin/sh
# usage: seedbatch.sh <prop> [suffixes...]   e.g. seedbatch.sh C10 c1 c2 c3
# Confirms the sub-agent seeds /tmp/seedout/<prop>-<suffix> in the agent's (now idle)
# shimmed worktree /tmp/wt-c<NN> and records the checks' reaction (tools/seedcheck.py).
prop=$1; shift
nn=$(echo $prop | cut -c2-)
wt=/tmp/wt-c$nn
[ $# -eq 0 ] && set -- c1 c2 c3
for k in "$@"; do
  id=$prop-$k; src=/tmp/seedout/$id
  [ -f $src/patch.diff ] && [ -f $src/demo_test.go ] || { echo "$id: incomplete"; continue; }
  dir=$(head -5 $src/demo_test.go | sed -n 's,^// *dir: *\([^ ]*\).*,\1,p' | head -1)
  [ -n "$dir" ] || dir=.
  dir=$(echo $dir | sed 's,^\./,,; s,/$,,')
  pkgs=$(grep '^+++ b/' $src/patch.diff | sed 's,^+++ b/,,' | xargs -n1 dirname | sort -u | sed 's,^,./,' | tr '\n' ' ')
  run=$(grep -o "func Test[A-Za-z0-9_]*" $src/demo_test.go | sed 's/func //' | paste -sd'|')
  (cd $wt && git checkout -q -- . ':!go.mod' ':!go.sum'; git clean -fdq -e go.mod >/dev/null 2>&1; rm -f */zz_seed_demo_test.go zz_seed_demo_test.go)
  python3 /verif/tools/seedcheck.py --shim --src $src --id $id --prop $prop --wt $wt --pkgs "$pkgs" --demo-dir "$dir" --run "$run" --demo-timeout 20m > /tmp/seedlog/$id.log 2>&1
  tail -1 /tmp/seedlog/$id.log
done
