#!/bin/sh
# usage: apply.sh <bigslice-worktree-dir>
#
# Points the worktree's go.mod at the shimmed copies of grailbio/base and
# grailbio/bigmachine and raises its language version to go1.18. Only go.mod
# is modified (go.sum stays as is; no .go file is touched). Idempotent.
set -eu
[ $# -eq 1 ] || { echo "usage: $0 <worktree-dir>" >&2; exit 2; }
SHIM=$(cd "$(dirname "$0")" && pwd)
WT=$(cd "$1" && pwd)
. "$SHIM/env.sh"
sh "$SHIM/mkshim.sh"
cd "$WT"
grep -q '^module github.com/grailbio/bigslice$' go.mod || {
	echo "apply.sh: $WT is not a bigslice checkout" >&2; exit 1; }
go mod edit -go=1.18 \
	-replace "github.com/grailbio/base=$SHIM/base" \
	-replace "github.com/grailbio/bigmachine=$SHIM/bigmachine"
# With GOFLAGS=-mod=mod this also records the indirect requirements that a
# go >= 1.17 go.mod must list; everything resolves from the module cache.
go build ./ ./exec ./internal/slicecache
go test -vet=off -count=1 -run 'XXX_NONE' ./ ./exec ./internal/slicecache
echo "apply.sh: $WT now builds against $SHIM/base and $SHIM/bigmachine"
