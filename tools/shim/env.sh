# Source this in every shell that builds or tests a shimmed bigslice worktree.
export GOFLAGS=-mod=mod GOPROXY=off GOSUMDB=off GOTOOLCHAIN=local
