#!/bin/sh
# Rebuild /tmp/shim/base and /tmp/shim/bigmachine from the module cache plus
# base.patch / bigmachine.patch. Only needed if the shim directories are lost;
# apply.sh calls this automatically when they are missing.
set -eu
SHIM=$(cd "$(dirname "$0")" && pwd)
. "$SHIM/env.sh"
MC=$(go env GOMODCACHE)/github.com/grailbio
for pair in base@v0.0.9:base bigmachine@v0.5.8:bigmachine; do
	src=${pair%%:*}; dst=${pair##*:}
	if [ -d "$SHIM/$dst" ]; then
		echo "mkshim: $SHIM/$dst exists, leaving it alone" >&2
		continue
	fi
	cp -r "$MC/$src" "$SHIM/$dst"
	chmod -R u+w "$SHIM/$dst"
	(cd "$SHIM/$dst" && patch -s -p1 < "$SHIM/$dst.patch")
	echo "mkshim: created $SHIM/$dst" >&2
done
