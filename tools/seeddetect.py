#!/usr/bin/env python3
"""Re-run the static checks against every kept seeded change and record which rules fire.

usage: seeddetect.py [ids...]

Works in a scratch worktree of /repo's HEAD (created under /tmp, removed at the end), never in
/repo itself (the first confirmation of a seed, tools/seedcheck.py, is what applies it to /repo).
For each /verif/seeded/<id>/patch.diff: git apply it there (falling back to a 3-way apply when a
later fix: commit moved the context), run `bsvet -root <worktree> -no-evidence all`, hard-reset the
worktree, and update
/verif/seeded/<id>/meta.json ("checks": per property the rules that fired, "detected",
"detected_by_own_property").  Writes /verif/seeded/INDEX.md.  Exits 1 if a seed is not
detected by the check of its own property.
"""
import argparse, fcntl, json, os, re, subprocess, sys
ap=argparse.ArgumentParser(); ap.add_argument('ids',nargs='*')
ap.add_argument('--root',default='/tmp/wt-seeddetect',help='scratch worktree to use (several instances may run side by side with different roots)')
ap.add_argument('--part',default='',help='i/n: process only the i-th of n slices of the seed list')
ap.add_argument('--index-only',action='store_true',help='only rewrite INDEX.md from the meta.json files')
a=ap.parse_args()
env=dict(os.environ,GOFLAGS='-mod=mod',GOPROXY='off',GOSUMDB='off',GOTOOLCHAIN='local')
def sh(cmd,cwd=None):
    p=subprocess.run(cmd,shell=True,cwd=cwd,env=env,stdout=subprocess.PIPE,stderr=subprocess.STDOUT,text=True)
    return p.returncode,p.stdout
seeds=sorted(d for d in os.listdir('/verif/seeded') if os.path.isfile(f'/verif/seeded/{d}/patch.diff'))
def write_index():
    with open('/verif/seeded/INDEX.md','w') as f:
        f.write('# Seeded changes (from sub-agents that saw only the property text)\n\nEach directory holds patch.diff, the demonstration test, README.txt (what it needs to manifest) and meta.json (what was confirmed in a scratch worktree; which rules fire). Regenerate with `python3 tools/seeddetect.py`.\n\n| seed | detected by its property\'s check | rules of that property | other properties that also fire |\n|---|---|---|---|\n')
        for sid in seeds:
            mp=f'/verif/seeded/{sid}/meta.json'
            if not os.path.exists(mp): continue
            m=json.load(open(mp)); prop=sid.split('-')[0]; res=m.get('checks',{})
            res={k:(v if isinstance(v,list) else v.get('rules',[])+(['undecided'] if v.get('undecided') else [])) for k,v in res.items()}
            res={k:v for k,v in res.items() if v}
            if m.get('applies') is False:
                f.write('| %s | patch no longer applies |  |  |\n'%sid); continue
            f.write('| %s | %s | %s | %s |\n'%(sid,'yes' if prop in res else ('other property only' if res else 'NO'),', '.join(res.get(prop,[])),'; '.join(f'{k}: {",".join(v)}' for k,v in sorted(res.items()) if k!=prop)))
if a.index_only:
    write_index(); sys.exit(0)
if a.ids: seeds=[s for s in seeds if s in a.ids]
if a.part:
    i,n=map(int,a.part.split('/')); seeds=seeds[i::n]
lock=open('/tmp/seeddetect.%s.lock'%os.path.basename(a.root),'w'); fcntl.flock(lock,fcntl.LOCK_EX)
sh('git -C /repo worktree remove --force '+a.root); rc,out=sh('git -C /repo worktree add --detach '+a.root+' HEAD'); assert rc==0,out
rows=[]; missed=[]
for sid in seeds:
    d=f'/verif/seeded/{sid}'; prop=sid.split('-')[0]
    meta=json.load(open(d+'/meta.json')) if os.path.exists(d+'/meta.json') else {"id":sid,"property":prop}
    rc,out=sh(f'git apply {d}/patch.diff',a.root)
    if rc!=0:
        rc,out=sh(f'git apply -3 {d}/patch.diff',a.root)
        rc2,out2=sh('git diff --name-only --diff-filter=U',a.root)
        if out2.strip(): rc=1
    if rc!=0:
        sh('git reset -q --hard HEAD',a.root); meta['applies']=False; rows.append((sid,'patch no longer applies','','')); json.dump(meta,open(d+'/meta.json','w'),indent=1); continue
    meta['applies']=True
    try:
        rc,out=sh(f'/verif/bin/bsvet -root {a.root} -no-evidence all','/verif')
    finally:
        sh('git reset -q --hard HEAD',a.root)
    det={}
    cur=None
    for l in out.splitlines():
        m=re.match(r'\s+\[violation\] (C\d+-R\d+) ',l)
        if m: last=m.group(1)
        m=re.match(r'\s+key: (.*)',l)
        m2=re.match(r'(C\d+): \d+/\d+ obligations',l)
        if m2: cur=None
    # per property: parse blocks
    blocks=re.split(r'\n(?=  C\d+-R\d+\s+\d+/)',out)
    per={}
    prop_of_line=None
    viol=re.findall(r'VIOLATION property=(C\d+)',out)
    # rules per property: scan sequentially
    props_order=[]; cur_rules=[]
    res={}
    for l in out.splitlines():
        m=re.match(r'\s+\[violation\] (C\d+-R\d+) (\S+): ',l)
        if m: cur_rules.append(m.group(1))
        m=re.match(r'\s+undecided: (.*)',l)
        if m: cur_rules.append('undecided')
        m=re.match(r'(C\d+): \d+/\d+ obligations discharged, (\d+) violation',l)
        if m:
            if cur_rules: res[m.group(1)]=sorted(set(cur_rules))
            cur_rules=[]
    meta['checks']=res
    meta['detected']=bool(res)
    meta['detected_by_own_property']=prop in res
    json.dump(meta,open(d+'/meta.json','w'),indent=1)
    if prop not in res: missed.append(sid)
    rows.append((sid,'yes' if prop in res else ('other property only' if res else 'NO'),', '.join(res.get(prop,[])),'; '.join(f'{k}: {",".join(v)}' for k,v in sorted(res.items()) if k!=prop)))
    print(sid,res,flush=True)
sh('git -C /repo worktree remove --force '+a.root)
fcntl.flock(lock,fcntl.LOCK_UN)
if not a.ids and not a.part:
    seeds=sorted(d for d in os.listdir('/verif/seeded') if os.path.isfile(f'/verif/seeded/{d}/patch.diff'))
    write_index()
if False:
    with open('/verif/seeded/INDEX.md','w') as f:
        f.write('# Seeded changes (from sub-agents that saw only the property text)\n\nEach directory holds patch.diff, the demonstration test, README.txt (what it needs to manifest) and meta.json (what was confirmed in a scratch worktree; which rules fire). Regenerate with `python3 tools/seeddetect.py`.\n\n| seed | detected by its property\'s check | rules of that property | other properties that also fire |\n|---|---|---|---|\n')
        for r in rows: f.write('| %s | %s | %s | %s |\n'%r)
print('missed by own property:',missed)
sys.exit(1 if missed else 0)
