#!/usr/bin/env python3
"""Regenerates MANIFEST.json from the claims table below (run after adding a property to bsvet)."""
import json, subprocess
props=[json.loads(l) for l in open('/verif/properties.jsonl')]
claims=json.load(open('/verif/claims.json'))   # id -> {"text":..., "note":...} ; "_na": {id: reason}
checks=[]
for p in props:
    c=claims.get(p['id'])
    if not c: continue
    checks.append({
      "property_id":p['id'],
      "quick_cmd":"./run.sh %s quick"%p['id'],
      "thorough_cmd":"./run.sh %s thorough"%p['id'],
      "evidence_file":"/verif/evidence/%s.json"%p['id'],
      "replay_cmd_template":"./run.sh %s quick  # static: re-running on the same tree reproduces {path}"%p['id'],
      "engine":"bsvet",
      "level_claimed":{"category":"other","text":c['text'],"design_ref":"DESIGN.md §4 "+p['id']},
      "level_note":c.get('note',"Trusted base: go/types and go/cfg (x/tools v0.29.0) and this checker's rule tables. Only the named structural necessary conditions are decided; values, schedules and end-to-end behaviour are not."),
      "technique":c.get('technique',"static analysis: repository-specific rules over the type-checked AST and go/cfg control-flow graphs (path obligations, error-value flow, ownership, sibling/table agreement)")
    })
na=[{"property_id":p['id'],"reason":claims['_na'].get(p['id'],"check not yet built in this session (in progress)")} for p in props if p['id'] not in claims]
m={"version":1,
 "setup_cmd":"cd /verif/checker && GOFLAGS=-mod=mod GOPROXY=off GOSUMDB=off GOTOOLCHAIN=local GOWORK=off go build -o ../bin/bsvet .",
 "hooks":{"guard":"verif","enable":"none needed: the checks read the source; no instrumentation is compiled into /repo","baseline_off_cmd":json.load(open('/root/.vp/BASELINE.json'))['cmd'],"source_commits":[],"add_only":True},
 "engines":[{"name":"bsvet","path":"/verif/checker","serves_properties":[c['property_id'] for c in checks],"kind_free_text":"custom static analyser (go/packages + go/types + go/cfg, x/tools v0.29.0); thorough tier adds in-memory mutant/neutral-variant self-validation and a GOARCH=386 run"}],
 "checks":checks,
 "not_applicable":na,
 "notes":"All checks are static analysis of /repo's current working tree; nothing from /repo is executed. known_findings.json lists genuine defects recorded rather than repaired, and the fix: commits. See DESIGN.md."}
json.dump(m,open('/verif/MANIFEST.json','w'),indent=1)
print("claimed:",[c['property_id'] for c in checks],"na:",[n['property_id'] for n in na])
